#!/bin/sh
# usage: mut.sh <file-in-repo> <sed-expr> <property> [tier]   -- apply a one-line mutation to /repo, run the check, revert.
f=$1; e=$2; p=$3; t=${4:-quick}
cd /repo && git diff --quiet || { echo "repo dirty"; exit 9; }
sed -i "$e" "$f"
git diff --stat | tail -1
if git diff --quiet; then echo "MUTATION DID NOT APPLY"; exit 9; fi
cd /verif && ./check $p --tier $t 2>&1 | grep -E "VIOLATION|KNOWN|HARNESS|INCONCL|tier=" | head -8
echo "exit=$?"
cd /repo && git checkout -- . && find /repo -name __pycache__ -type d -prune -exec rm -rf {} + 2>/dev/null
