"""
symx.runner -- drives one property check: fan cases out over a process pool, decide obligations symbolically,
replay every counterexample on the unpatched float backend, cross-validate harness+oracle in float mode,
write evidence, honour known_findings.json, print VIOLATION / KNOWN-FINDING lines, set the exit code.

exit 0 : every obligation of the tier decided `unsat` (holds for all values within the stated bounds)
exit 1 : at least one counterexample that REPRODUCES on the real float backend and is not a listed known finding
exit 2 : inconclusive (solver unknown / path budget / harness error / non-reproducing counterexample)
"""
from __future__ import annotations
import hashlib
import importlib
import json
import multiprocessing as mp
import os
import sys
import time
import traceback
from concurrent.futures import ProcessPoolExecutor, as_completed

VERIF = os.path.dirname(os.path.dirname(os.path.abspath(__file__)))
_MODE = None


def _init_worker(mode):
    global _MODE
    _MODE = mode
    sys.path.insert(0, VERIF)
    import warnings
    warnings.filterwarnings('ignore')
    if mode == 'sym':
        from symx import backend
        backend.install()


def _harness(name):
    return importlib.import_module(f'harness.{name}')


def _short_tb(e):
    tb = traceback.extract_tb(e.__traceback__)
    frames = [f'{os.path.basename(f.filename)}:{f.lineno}:{f.name}' for f in tb][-6:]
    return ' < '.join(reversed(frames))


def _origin(e):
    """'harness' if the exception was raised by /verif code itself (oracle / catalogue / stub), 'yastn' if inside the code under test"""
    tb = traceback.extract_tb(e.__traceback__)
    return 'harness' if tb and os.path.abspath(tb[-1].filename).startswith(VERIF + os.sep) else 'yastn'


def run_case_sym(hname, spec, opts):
    from symx import core
    from symx.ctx import SymCtx, Violation, Skip
    from yastn import YastnError
    h = _harness(hname)
    stats = core.Stats()
    ctx = SymCtx(spec, stats, query_timeout_ms=opts.get('query_timeout_ms', 60000))
    t0 = time.time()
    out = {'id': spec['id'], 'status': 'ok', 'mode': 'sym'}

    def fn():
        ctx.reset()
        return h.run(ctx, spec)
    witness = {'stub_paths': 0, 'sat': 0, 'unsat': 0, 'unknown': 0}
    try:
        for eng, res in core.explore(fn, max_paths=opts.get('max_paths', 5000),
                                     timeout_ms=opts.get('feas_timeout_ms', 20000), stats=stats,
                                     deadline=t0 + opts.get('case_deadline_s', 600)):
            pins = getattr(eng, 'pins', None)
            if pins and not isinstance(res, BaseException) and witness['sat'] == 0:
                # vacuity guard: assumptions + path condition are satisfied by the pinned rational witness on some path
                import z3
                witness['stub_paths'] += 1
                eng.solver.push()
                eng.solver.add(pins)
                eng.solver.set('timeout', 10000)
                r = str(eng.solver.check())
                eng.solver.pop()
                witness[r] += 1
    except Violation as v:
        out['status'] = 'candidate'
        out['cand'] = v.cand
    except core.Inconclusive as e:
        out['status'] = 'inconclusive'
        out['detail'] = str(e)
    except Skip as e:
        out['status'] = 'skipped'
        out['detail'] = str(e)
    except YastnError as e:
        if getattr(h, 'YASTNERROR_IS_SKIP', False):
            out['status'] = 'skipped_yastnerror'
            out['detail'] = str(e)[:200]
        else:
            # harnesses build inputs inside the documented domain and catch the YastnErrors they expect themselves:
            # one that escapes means a valid input was rejected
            cand = ctx._candidate('exception', 'YastnError', f'YastnError: {str(e)[:300]} @ {_short_tb(e)}')
            out['status'] = 'candidate'
            out['cand'] = cand
    except Exception as e:  # noqa -- any other exception on a well-formed input is a violation candidate
        cand = ctx._candidate('exception', type(e).__name__, f'{type(e).__name__}: {str(e)[:300]} @ {_short_tb(e)}')
        cand['origin'] = _origin(e)
        out['status'] = 'candidate'
        out['cand'] = cand
    out['stats'] = stats.as_dict()
    out['witness'] = witness
    out['samples'] = ctx.samples
    out['nobl'] = ctx.nobl
    out['wall_s'] = round(time.time() - t0, 3)
    return out


def replay_candidate(hname, spec, cand, seed, tries=12):
    """replay a solver counterexample on the unpatched float backend: first with the model's input values; if that run takes
    another branch (LAPACK gauge, ties) retry with a few seeded random inputs of the same case.  Only a run that FAILS on the
    real float backend counts as reproduced; the reproducing input (model values or float seed) is stored in the replay file."""
    r = run_case_float(hname, spec, cand.get('inputs') or {}, seed)
    r['float_seed'] = None
    def same(r):
        return r['status'] == 'violation' and (cand['kind'] != 'exception' or r['cand'].get('label') == cand.get('label'))
    if same(r):
        return r
    for k in range(tries):
        r2 = run_case_float(hname, spec, None, 7919 * (k + 1) + seed)
        if same(r2):
            r2['float_seed'] = 7919 * (k + 1) + seed
            return r2
    return r


def run_case_float(hname, spec, values, seed, expect=None):
    """values=None: random cross-validation run.  values=dict: replay of a solver model."""
    from symx import core
    from symx.ctx import FloatCtx, Violation, Skip
    from yastn import YastnError
    h = _harness(hname)
    stats = core.Stats()
    ctx = FloatCtx(spec, stats, values=values, seed=seed)
    core.ENG = None
    out = {'id': spec['id'], 'status': 'ok', 'mode': 'float'}
    t0 = time.time()
    try:
        h.run(ctx, spec)
    except Violation as v:
        out['status'] = 'violation'
        out['cand'] = v.cand
    except (core.PathAbort, Skip) as e:
        out['status'] = 'skipped'
        out['detail'] = str(e)
    except core.Inconclusive as e:
        out['status'] = 'inconclusive'
        out['detail'] = str(e)
    except YastnError as e:
        if getattr(h, 'YASTNERROR_IS_SKIP', False):
            out['status'] = 'skipped_yastnerror'
            out['detail'] = str(e)[:200]
        else:
            out['status'] = 'violation'
            out['cand'] = {'kind': 'exception', 'label': 'YastnError', 'detail': f'YastnError: {str(e)[:300]} @ {_short_tb(e)}'}
    except Exception as e:  # noqa
        out['status'] = 'violation'
        out['cand'] = {'kind': 'exception', 'label': type(e).__name__,
                       'detail': f'{type(e).__name__}: {str(e)[:300]} @ {_short_tb(e)}', 'origin': _origin(e)}
    out['stats'] = stats.as_dict()
    out['wall_s'] = round(time.time() - t0, 3)
    return out


def _task(args):
    kind = args[0]
    if kind == 'sym':
        return run_case_sym(*args[1:])
    if kind == 'replay':
        return replay_candidate(*args[1:])
    return run_case_float(*args[1:])


# ----------------------------------------------------------------------------------------------------------------------

def load_known():
    p = os.path.join(VERIF, 'known_findings.json')
    if not os.path.exists(p):
        return []
    return json.load(open(p)).get('entries', [])


def finding_signature(hmod, spec, cand):
    f = getattr(hmod, 'signature', None)
    if f is not None:
        s = f(spec, cand)
        if s:
            return s
    return f"{spec.get('kind', '?')}:{cand.get('label', '?')}"


def write_replay(pid, hname, spec, cand):
    os.makedirs(os.path.join(VERIF, 'replays'), exist_ok=True)
    blob = json.dumps({'property': pid, 'harness': hname, 'spec': spec, 'candidate': cand}, sort_keys=True, default=str)
    hsh = hashlib.sha1(blob.encode()).hexdigest()[:10]
    path = os.path.join(VERIF, 'replays', f'{pid}-{hsh}.json')
    with open(path, 'w') as f:
        f.write(blob)
    return path


class Pools:
    def __init__(self, nproc):
        self.nproc = nproc
        self._p = {}

    def get(self, mode):
        if mode not in self._p:
            self._p[mode] = ProcessPoolExecutor(max_workers=self.nproc, mp_context=mp.get_context('spawn'),
                                                initializer=_init_worker, initargs=(mode,))
        return self._p[mode]

    def close(self):
        for p in self._p.values():
            p.shutdown(wait=False, cancel_futures=True)


def main_check(pid, hname, tier, seed, extra_evidence=None, pre_results=None):
    """Generic driver for symx harnesses.  Returns exit code."""
    t0 = time.time()
    sys.path.insert(0, VERIF)
    h = _harness(hname)
    cases = h.cases(tier, seed)
    opts = dict(getattr(h, 'OPTS', {}).get(tier, {}))
    nproc = int(os.environ.get('VERIF_NPROC', os.cpu_count() or 4))
    pools = Pools(nproc)
    known = [e for e in load_known() if e.get('property') == pid and e.get('kind') == 'finding']
    agg = {'ok': 0, 'candidate': 0, 'inconclusive': 0, 'skipped': 0, 'skipped_yastnerror': 0}
    from symx.core import Stats
    stats = Stats()
    samples, inconcl, cands = [], [], []
    kinds_run = {}
    wit = {'stub_cases': 0, 'witnessed': 0}
    try:
        futs = {pools.get('sym').submit(_task, ('sym', hname, c, opts)): c for c in cases}
        # translator validation: the same harness on the unpatched float backend with random floats
        nfloat = getattr(h, 'FLOAT_XVAL', {}).get(tier, 0.34)
        fcases = cases if nfloat >= 1 else [c for i, c in enumerate(cases) if (i * 2654435761 + seed) % 1000 < nfloat * 1000]
        ffuts = {pools.get('float').submit(_task, ('float', hname, c, None, seed + i)): c for i, c in enumerate(fcases)}
        by_id = {}
        for f in as_completed(futs):
            c = futs[f]
            try:
                r = f.result()
            except Exception as e:  # worker crashed
                r = {'id': c['id'], 'status': 'inconclusive', 'detail': f'worker error {type(e).__name__}: {e}', 'stats': {}, 'samples': []}
            by_id[c['id']] = r
            agg[r['status']] = agg.get(r['status'], 0) + 1
            stats.add(r.get('stats', {}))
            kinds_run[c.get('kind', '?')] = kinds_run.get(c.get('kind', '?'), 0) + 1
            w = r.get('witness') or {}
            if w.get('stub_paths'):
                wit['stub_cases'] += 1
                wit['witnessed'] += 1 if w.get('sat') else 0
            if r['status'] == 'candidate':
                cands.append((c, r['cand']))
            elif r['status'] == 'inconclusive':
                inconcl.append({'case': c['id'], 'detail': r.get('detail')})
            if r.get('samples') and len(samples) < 8 and r['status'] == 'ok':
                samples.append({'case': {k: v for k, v in c.items() if k != 'id'} | {'id': c['id']},
                                'paths': r['stats'].get('paths'), 'obligations': r['samples'][:3]})
        xval = {'ok': 0, 'violation': 0, 'skipped': 0, 'skipped_yastnerror': 0, 'inconclusive': 0}
        xval_bad = []
        for f in as_completed(ffuts):
            c = ffuts[f]
            try:
                r = f.result()
            except Exception as e:
                r = {'id': c['id'], 'status': 'inconclusive', 'detail': f'worker error {e}'}
            xval[r['status']] = xval.get(r['status'], 0) + 1
            if r['status'] == 'violation':
                xval_bad.append((c, r['cand']))
        # replay candidates on the float backend
        violations, known_hits, harness_errors = [], [], []
        seen_sigs = set()
        rfuts = {}
        for c, cand in cands:
            if cand.get('origin') == 'harness':
                # raised by the harness / oracle code itself, not by yastn: never reported as a violation of the property
                harness_errors.append({'case': c['id'], 'why': 'exception raised inside /verif code (oracle or stub limit)', 'cand': {k: v for k, v in cand.items() if k != 'inputs'}})
                continue
            if cand.get('inputs') is None and cand['kind'] == 'obligation':
                harness_errors.append({'case': c['id'], 'why': 'no model', 'cand': cand})
                continue
            rfuts[pools.get('float').submit(_task, ('replay', hname, c, cand, seed))] = (c, cand)
        for f in as_completed(rfuts):
            c, cand = rfuts[f]
            try:
                r = f.result()
            except Exception as e:
                r = {'status': 'inconclusive', 'detail': str(e)}
            reproduced = r['status'] == 'violation' and (cand['kind'] != 'exception' or r['cand'].get('label') == cand.get('label'))
            if not reproduced:
                harness_errors.append({'case': c['id'], 'why': f"counterexample did not reproduce on float backend (replay status {r['status']}: {r.get('cand') or r.get('detail')})", 'cand': {k: v for k, v in cand.items() if k != 'inputs'}})
                continue
            sig = finding_signature(h, c, cand)
            path = write_replay(pid, hname, c, cand | {'float_replay': r.get('cand'), 'float_seed': r.get('float_seed')})
            if any(e.get('signature') == sig for e in known):
                known_hits.append((sig, c, cand))
            else:
                violations.append((sig, c, cand, path))
        # float cross-validation disagreements that the symbolic run did not flag = harness / encoding problem
        cand_ids = {c['id'] for c, _ in cands}
        for c, cand in xval_bad:
            if c['id'] in cand_ids:
                continue
            if cand.get('origin') == 'harness':
                harness_errors.append({'case': c['id'], 'why': 'exception raised inside /verif code in the float cross-run', 'cand': cand})
                continue
            if cand.get('kind') in ('structure', 'exception'):
                # a concrete (value-independent, tolerance-free) obligation failed on the REAL float backend in the cross-run of the
                # same harness case: e.g. dtype tags, which the symbolic backend cannot observe.  It reproduces by construction.
                sig = finding_signature(h, c, cand)
                cand = dict(cand, found_by='float-backend cross-run of the harness (concrete obligation)', float_seed=seed + [x['id'] for x in fcases].index(c['id']))
                path = write_replay(pid, hname, c, cand)
                if any(e.get('signature') == sig for e in known):
                    known_hits.append((sig, c, cand))
                else:
                    violations.append((sig, c, cand, path))
            elif getattr(h, 'FLOAT_NUMERIC_IS_VIOLATION', False):
                # numeric disagreement with the NumPy oracle on the REAL float backend (rtol/atol 1e-8 on inputs in [-2,2]) that the exact
                # symbolic run cannot see: dtype promotion / casts (symbolic arrays have no NumPy dtype).  Reproduces by construction.
                sig = finding_signature(h, c, cand)
                cand = dict(cand, found_by='float-backend cross-run of the harness (numeric obligation; outside the solver-decided claim)',
                            float_seed=seed + [x['id'] for x in fcases].index(c['id']))
                path = write_replay(pid, hname, c, cand)
                if any(e.get('signature') == sig for e in known):
                    known_hits.append((sig, c, cand))
                else:
                    violations.append((sig, c, cand, path))
            else:
                harness_errors.append({'case': c['id'], 'why': 'float cross-validation failed (numeric obligation) where symbolic run passed', 'cand': cand})
    finally:
        pools.close()

    wall = time.time() - t0
    for sig in sorted({s for s, _, _ in known_hits}):
        ent = next(e for e in known if e['signature'] == sig)
        print(f"KNOWN-FINDING: property={pid} {sig} -- {ent.get('what', '')}")
    printed = set()
    for sig, c, cand, path in violations:
        if sig in printed:
            continue
        printed.add(sig)
        print(f"VIOLATION property={pid} replay={path}")
        print(f"  case={c['id']} signature={sig} {cand['kind']}:{cand['label']} -- {cand['detail'][:300]}")
    for he in harness_errors[:10]:
        print(f"HARNESS-ERROR property={pid} case={he['case']}: {he['why']}")
    for ic in inconcl[:10]:
        print(f"INCONCLUSIVE property={pid} case={ic['case']}: {ic['detail']}")

    nontrivial = agg['ok'] + agg['candidate']
    ev = {
        'property_id': pid, 'tier': tier, 'seed': seed, 'level': 'model_checking',
        'coverage': {
            'states': max(1, stats.paths), 'transitions': max(1, stats.branches),
            'traces_validated_against_impl': xval['ok'] + len(rfuts),
            'samples': samples or [{'note': 'no case completed'}],
            'evaluations': len(cases), 'distinct_nontrivial': nontrivial,
            'rule': getattr(h, 'RULE', 'one evaluation = one structure/operation case executed symbolically over all paths; '
                            'distinct by case id; non-trivial = reached at least one obligation (not skipped as outside the domain)'),
            'exhaustive': bool(getattr(h, 'EXHAUSTIVE', {}).get(tier, False)),
            'cases_by_kind': kinds_run, 'case_status': agg,
            'paths_explored': stats.paths, 'paths_aborted_outside_domain': stats.aborted_paths,
            'branch_decisions': stats.branches, 'feasibility_queries': stats.feas_queries,
            'obligations': stats.obligations, 'obligation_queries': stats.queries,
            'unsat': stats.unsat, 'sat': stats.sat, 'unknown': stats.unknown,
            'identical_term_or_concrete_checks': stats.concrete_checks,
            'second_solver_cvc5': {'unsat_verdicts_rechecked': stats.x_checked, 'agree_unsat': stats.x_agree, 'cvc5_unknown_or_timeout': stats.x_unknown,
                                   'disagree_cvc5_sat': stats.x_disagree, 'note': 'thorough tier: a sample of z3 unsat verdicts (assumptions + path condition + negated goal as SMT-LIB2) is put to the cvc5 1.0.3 binary with a 4 s limit; a disagreement makes the run inconclusive'},
            'solver_s': round(stats.solver_s, 2),
            'float_cross_validation': xval, 'replays': len(rfuts),
            'vacuity_guard': dict(wit, note='cases using LAPACK contract stubs / cases where assumptions+path condition were shown '
                                  'satisfiable by a pinned exact rational witness (Householder reflectors, rational spectrum)'),
            'functions_encoded': getattr(h, 'FUNCTIONS', []),
            'bounds': getattr(h, 'BOUNDS', {}).get(tier, getattr(h, 'BOUNDS', {})),
            'stubs': _stubs(), 'outside_claim': getattr(h, 'OUTSIDE', []),
            'known_findings_hit': sorted({s for s, _, _ in known_hits}),
            'inconclusive': inconcl[:20], 'harness_errors': harness_errors[:20],
            'solver': 'z3 %s' % _z3ver(),
        },
        'assumptions': getattr(h, 'ASSUMPTIONS', []),
        'wall_s': round(wall, 2),
        'violations': len(printed),
    }
    if extra_evidence:
        ev['coverage'].update(extra_evidence)
    os.makedirs(os.path.join(VERIF, 'evidence'), exist_ok=True)
    with open(os.path.join(VERIF, 'evidence', f'{pid}.json'), 'w') as f:
        json.dump(ev, f, indent=1, default=str)
    print(f"{pid} tier={tier} cases={len(cases)} status={agg} paths={stats.paths} obligations={stats.obligations} "
          f"queries={stats.queries} unsat={stats.unsat} sat={stats.sat} unknown={stats.unknown} solver_s={stats.solver_s:.1f} "
          f"xval={xval} wall={wall:.1f}s")
    if printed:
        return 1
    if harness_errors or inconcl or agg.get('inconclusive'):
        return 2
    if stats.x_disagree:
        print(f"INCONCLUSIVE property={pid}: cvc5 answered sat on {stats.x_disagree} obligation(s) that z3 decided unsat")
        return 2
    if wit['stub_cases'] and wit['witnessed'] * 2 < wit['stub_cases']:
        print(f"INCONCLUSIVE property={pid}: vacuity guard: only {wit['witnessed']}/{wit['stub_cases']} stub cases have a satisfiable witness")
        return 2
    if nontrivial == 0:
        print(f"INCONCLUSIVE property={pid}: no case reached an obligation")
        return 2
    return 0


def _stubs():
    try:
        from symx import backend
        return list(backend.STUBS)
    except Exception:
        return []


def _z3ver():
    import z3
    return z3.get_version_string()


def replay_file(path):
    """./check <id> --replay <path>: re-run a stored counterexample on the float backend."""
    sys.path.insert(0, VERIF)
    d = json.load(open(path))
    _init_worker('float')
    fs = d['candidate'].get('float_seed')
    r = run_case_float(d['harness'], d['spec'], None if fs is not None else (d['candidate'].get('inputs') or {}), fs or 0)
    print(json.dumps({k: v for k, v in r.items() if k != 'stats'}, indent=1, default=str))
    if r['status'] == 'violation':
        print(f"VIOLATION property={d['property']} replay={path}")
        return 1
    return 0
