"""
symx.backend -- in-process patching of the REAL module object yastn.backend.backend_np so that the unmodified
kernels (slicing / reshape / transpose / np.dot / += ...) run on dtype=object arrays of symbolic scalars.

Nothing under /repo is modified on disk.  Every override is listed in STUBS (copied into evidence).
LAPACK leaves are replaced by contract stubs (fresh outputs constrained by the defining equations).
"""
from __future__ import annotations
from fractions import Fraction
import math
import numpy as np
import z3
from . import core
from .core import SV, SC, SI, SB, zr, zc, rv

STUBS = [
    "backend_np.DTYPE[*] -> object (zeros/ones/to_tensor allocate object arrays)",
    "backend_np.get_yastn_dtype -> 'complex128' if an element is SC else 'float64' for object arrays",
    "backend_np.is_complex -> any element SC / python complex (object arrays)",
    "backend_np.real / imag -> element-wise .real/.imag (NumPy treats object arrays as real)",
    "backend_np.norm('fro') -> fresh nu with nu >= 0 and nu^2 == sum |x|^2 (exact); 'inf' runs the real code (forks)",
    "backend_np.sum_elements -> np.array([data.sum()], dtype=object) (object .sum() returns a bare scalar)",
    "backend_np.rand -> deterministic small rationals (values are replaced by symbols in the harness)",
    "backend_np.allclose -> exact comparison deciding with the engine (forks)",
    "backend_np.safe_svd / scipy.linalg.svd -> contract stub: fresh U,S,V; U diag(S) V == M, U^H U == I, V V^H == I, S_1>=...>=S_k>=0; same input terms -> same outputs",
    "scipy.linalg.qr (as seen from backend_np) -> contract stub: fresh Q, upper-triangular R; Q R == M, Q^H Q == I; same input -> same outputs",
    "scipy.linalg.eigh (as seen from backend_np) -> contract stub: fresh ascending S, U; U diag(S) U^H == M, U^H U == U U^H == I; same input -> same outputs",
]

_installed = False
LAPACK = {'mode': 'contract', 'pins': None, 'calls': 0}


def _obj(x):
    return isinstance(x, np.ndarray) and x.dtype == object


def objarray(seq, shape=None):
    seq = list(seq)
    a = np.empty(len(seq), dtype=object)
    for i, v in enumerate(seq):
        a[i] = v
    return a if shape is None else a.reshape(shape)


def install():
    global _installed
    if _installed:
        return
    from yastn.backend import backend_np as bn
    _installed = True
    for k in list(bn.DTYPE):
        if k != 'bool':
            bn.DTYPE[k] = object
    bn.DTYPE['object'] = object

    def get_yastn_dtype(t):
        if t.dtype == object:
            return 'complex128' if any(isinstance(x, (SC, complex, np.complexfloating)) for x in t.flat) else 'float64'
        return t.dtype.name
    bn.get_yastn_dtype = get_yastn_dtype

    def is_complex(x):
        if _obj(x):
            return any(isinstance(e, (SC, complex, np.complexfloating)) for e in x.flat)
        return np.iscomplexobj(x)
    bn.is_complex = is_complex

    def real(x):
        if _obj(x):
            return objarray((e.real for e in x.flat), x.shape)
        return np.real(x)

    def imag(x):
        if _obj(x):
            return objarray((e.imag for e in x.flat), x.shape)
        return np.imag(x)
    bn.real, bn.imag = real, imag

    _norm0 = bn.norm

    def norm(data, p):
        if not _obj(data):
            return _norm0(data, p)
        if p != 'fro':
            return _norm0(data, p)
        return sym_norm(list(data.flat))
    bn.norm = norm

    def sum_elements(data):
        if _obj(data):
            return objarray([data.sum() if data.size else 0])
        return data.sum().reshape(1)
    bn.sum_elements = sum_elements

    def rand(D, dtype='float64', distribution=(0, 1), **kwargs):
        n = int(np.prod(D))
        if dtype == 'bool':
            return (np.arange(n) % 2 == 0).reshape(D)
        vals = [Fraction((7 * i) % 11 - 5, 4) + Fraction(1, 8) for i in range(n)]
        return objarray(vals, D)
    bn.rand = rand

    def allclose(A, B, rtol, atol):
        if _obj(A) or _obj(B):
            return all(bool(x == y) for x, y in zip(np.asarray(A, dtype=object).flat, np.asarray(B, dtype=object).flat))
        return np.allclose(A, B, rtol=rtol, atol=atol)
    bn.allclose = allclose

    # LAPACK leaves -------------------------------------------------------------------------------
    bn.safe_svd = stub_svd

    class _LinalgShim:
        """scipy.linalg as seen from backend_np: qr / eigh / svd replaced by contracts, everything else real."""
        def __init__(self, real_mod):
            self._real = real_mod
        def __getattr__(self, k):
            return getattr(self._real, k)
        @staticmethod
        def qr(a, mode='economic', **kw):
            return stub_qr(a) if _obj(a) else _scipy_linalg.qr(a, mode=mode, **kw)
        @staticmethod
        def eigh(a, **kw):
            return stub_eigh(a) if _obj(a) else _scipy_linalg.eigh(a, **kw)
        @staticmethod
        def svd(a, full_matrices=False, compute_uv=True, **kw):
            if not _obj(a):
                return _scipy_linalg.svd(a, full_matrices=full_matrices, compute_uv=compute_uv, **kw)
            U, S, V = stub_svd(a)
            return (U, S, V) if compute_uv else S

    import scipy.linalg as _scipy_linalg

    class _ScipyShim:
        def __init__(self, real_mod):
            self._real = real_mod
            self.linalg = _LinalgShim(real_mod.linalg)
        def __getattr__(self, k):
            return getattr(self._real, k)
    bn.scipy = _ScipyShim(bn.scipy)


# ----------------------------------------------------------------------------------------------------------------------

def sym_norm(elems):
    """exact Frobenius norm of a list of (symbolic or constant) scalars as a fresh symbol nu >= 0, nu^2 == sum|x|^2."""
    E = core.ENG
    tot = None
    const = Fraction(0)
    allconst = True
    for x in elems:
        if isinstance(x, SC):
            allconst = False
            t = x.re * x.re + x.im * x.im
        elif isinstance(x, SV):
            allconst = False
            t = x.e * x.e
        elif isinstance(x, (complex, np.complexfloating)):
            const += Fraction(float(x.real)) ** 2 + Fraction(float(x.imag)) ** 2
            continue
        else:
            const += (x if isinstance(x, Fraction) else Fraction(float(x)) if isinstance(x, (float, np.floating)) else Fraction(int(x))) ** 2
            continue
        tot = t if tot is None else tot + t
    if allconst:
        n, d = const.numerator, const.denominator
        rn, rd = math.isqrt(n), math.isqrt(d)
        if rn * rn == n and rd * rd == d:
            return SV(rv(Fraction(rn, rd)))
        tot = rv(const)
    elif const != 0:
        tot = tot + rv(const)
    # the norm is a function of its input: the same sum of squares (term-wise) on the same path gets the same symbol
    if not hasattr(E, 'norm_memo'):
        E.norm_memo = {}
    key = tot.get_id()              # z3 terms are hash-consed: structurally identical term <=> same ast (kept alive by the memo)
    if key in E.norm_memo:
        return SV(E.norm_memo[key][1])
    nu = E.fresh_real('nu')
    E.assume(z3.And(nu >= 0, nu * nu == tot))
    E.norm_memo[key] = (tot, nu)
    return SV(nu)


def _fresh(name, shape, cplx):
    E = core.ENG
    n = int(np.prod(shape)) if len(shape) else 1
    if cplx:
        return objarray((SC(E.fresh_real(name + 'r'), E.fresh_real(name + 'i')) for _ in range(n)), shape)
    return objarray((SV(E.fresh_real(name)) for _ in range(n)), shape)


def _is_cplx(a):
    return any(isinstance(x, (SC, complex, np.complexfloating)) for x in a.flat)


def _assume_eq(x, y):
    """polynomial contract equation: used to decide obligations, not to prune branches (non-linear `sat` does not terminate)."""
    E = core.ENG
    xr, xi = zc(x)
    yr, yi = zc(y)
    E.assume(xr == yr, feas=False)
    if not (xi is core._ZERO and yi is core._ZERO):
        E.assume(xi == yi, feas=False)


def _H(a):
    return objarray((x.conjugate() if hasattr(x, 'conjugate') else x for x in a.T.flat), a.T.shape)


def _memo_key(kind, a):
    """z3 terms are hash-consed, so the ast id identifies the term while it is alive (the memo keeps the input array alive)"""
    parts = []
    for x in a.flat:
        if isinstance(x, SC):
            parts.append((x.re.get_id(), x.im.get_id()))
        elif isinstance(x, SV):
            parts.append(x.e.get_id())
        else:
            parts.append(repr(x))
    return (kind, a.shape, tuple(parts))


def _memo(kind, a):
    """LAPACK is a function: the same input matrix (term-wise) on the same path gets the same outputs."""
    E = core.ENG
    if not hasattr(E, 'lapack_memo'):
        E.lapack_memo = {}
    return E.lapack_memo, _memo_key(kind, a)


def stub_svd(a):
    memo, key = _memo('svd', a)
    if key in memo:
        return tuple(x.copy() for x in memo[key][:-1])
    out = _stub_svd(a)
    memo[key] = tuple(x.copy() for x in out) + (a.copy(),)      # (input kept alive: ids stay valid)
    return out


def stub_qr(a):
    memo, key = _memo('qr', a)
    if key in memo:
        return tuple(x.copy() for x in memo[key][:-1])
    out = _stub_qr(a)
    memo[key] = tuple(x.copy() for x in out) + (a.copy(),)      # (input kept alive: ids stay valid)
    return out


def stub_eigh(a):
    memo, key = _memo('eigh', a)
    if key in memo:
        return tuple(x.copy() for x in memo[key][:-1])
    out = _stub_eigh(a)
    memo[key] = tuple(x.copy() for x in out) + (a.copy(),)      # (input kept alive: ids stay valid)
    return out


def _stub_svd(a):
    LAPACK['calls'] += 1
    m, n = a.shape
    k = min(m, n)
    cplx = _is_cplx(a)
    U = _fresh('U', (m, k), cplx)
    S = _fresh('S', (k,), False)
    V = _fresh('V', (k, n), cplx)
    E = core.ENG
    USV = (U * S.reshape(1, k)) @ V if k > 0 else np.zeros((m, n), dtype=object)
    for i in range(m):
        for j in range(n):
            _assume_eq(USV[i, j], a[i, j])
    UU = _H(U) @ U
    VV = V @ _H(V)
    for i in range(k):
        for j in range(k):
            _assume_eq(UU[i, j], 1 if i == j else 0)
            _assume_eq(VV[i, j], 1 if i == j else 0)
    for i in range(k):
        E.assume(S[i].e >= 0)
        if i + 1 < k:
            E.assume(S[i].e >= S[i + 1].e)
    _pin('svd', a, U=U, S=S, V=V)
    return U, S, V


def _stub_qr(a):
    LAPACK['calls'] += 1
    m, n = a.shape
    k = min(m, n)
    cplx = _is_cplx(a)
    Q = _fresh('Q', (m, k), cplx)
    R = _fresh('R', (k, n), cplx)
    for i in range(k):
        for j in range(min(i, n)):
            R[i, j] = 0
    QR = Q @ R if k > 0 else np.zeros((m, n), dtype=object)
    for i in range(m):
        for j in range(n):
            _assume_eq(QR[i, j], a[i, j])
    QQ = _H(Q) @ Q
    for i in range(k):
        for j in range(k):
            _assume_eq(QQ[i, j], 1 if i == j else 0)
    _pin('qr', a, Q=Q, R=R)
    return Q, R


def _stub_eigh(a):
    LAPACK['calls'] += 1
    n = a.shape[0]
    cplx = _is_cplx(a)
    S = _fresh('E', (n,), False)
    U = _fresh('W', (n, n), cplx)
    E = core.ENG
    M = (U * S.reshape(1, n)) @ _H(U)
    for i in range(n):
        for j in range(n):
            _assume_eq(M[i, j], a[i, j])
    UU = _H(U) @ U
    UUh = U @ _H(U)
    for i in range(n):
        for j in range(n):
            _assume_eq(UU[i, j], 1 if i == j else 0)
            _assume_eq(UUh[i, j], 1 if i == j else 0)
    for i in range(n - 1):
        E.assume(S[i].e <= S[i + 1].e)
    _pin('eigh', a, S=S, U=U)
    return S, U


def _input_kind(a, unpinned):
    """'free': some entry contains a harness input symbol (engine-created symbols are named <prefix>!<n>);
    'unpinnable': no symbol at all, or only engine symbols among which an output of an unpinnable decomposition; 'derived': otherwise"""
    seen = set()
    engine_syms = False
    bad = False
    for x in a.flat:
        es = (x.re, x.im) if isinstance(x, SC) else ((x.e,) if isinstance(x, SV) else ())
        stack = list(es)
        while stack:
            e = stack.pop()
            k = e.get_id()
            if k in seen:
                continue
            seen.add(k)
            if z3.is_const(e) and e.decl().kind() == z3.Z3_OP_UNINTERPRETED:
                if '!' not in e.decl().name():
                    return 'free'
                engine_syms = True
                if k in unpinned:
                    bad = True
            else:
                stack.extend(e.children())
    if not engine_syms or bad:
        return 'unpinnable'
    return 'derived'


def _pin(kind, a, **outs):
    """pinned rational witness (vacuity guard): record equations fixing the stub outputs to an exact rational
    decomposition (Householder reflectors, rational spectrum) and the input matrix to their product.  The runner checks at
    the end of each path that assumptions + path condition + pins are satisfiable: with everything pinned this is evaluation."""
    E = core.ENG
    if not hasattr(E, 'pins'):
        E.pins = []
    kind_in = _input_kind(a, getattr(E, 'unpinned', set()))
    if kind_in == 'unpinnable':
        # the matrix is a constant, or determined by the outputs of a decomposition of a constant: nothing can be pinned (the exact
        # decomposition of a fixed rational matrix is not rational); the contract is satisfiable because the decomposition exists;
        # such calls are not counted by the vacuity guard
        if not hasattr(E, 'unpinned'):
            E.unpinned = set()
        for o in outs.values():
            for x in o.flat:
                for e in ((x.re, x.im) if isinstance(x, SC) else ((x.e,) if isinstance(x, SV) else ())):
                    E.unpinned.add(e.get_id())
        return
    import random
    rnd = random.Random(1000 + len(E.pins))
    cplx = any(isinstance(x, SC) for o in outs.values() for x in o.flat)
    m, n = a.shape

    def house(d):
        if d == 0:
            return np.zeros((0, 0), dtype=object)
        while True:
            v = [complex(rnd.randint(-2, 2), rnd.randint(-2, 2) if cplx else 0) for _ in range(d)]
            vv = sum(int(x.real) ** 2 + int(x.imag) ** 2 for x in v)
            if vv:
                break
        H = np.empty((d, d), dtype=object)
        for i in range(d):
            for j in range(d):
                # (I - 2 v v^H / v^H v)_{ij}
                re = Fraction(int(i == j)) - Fraction(2 * int(round((v[i] * v[j].conjugate()).real)), vv)
                im = -Fraction(2 * int(round((v[i] * v[j].conjugate()).imag)), vv)
                H[i, j] = (re, im)
        return H

    def cmul(x, y):
        return (x[0] * y[0] - x[1] * y[1], x[0] * y[1] + x[1] * y[0])

    def pin_elem(sym_x, val):
        r, i = zc(sym_x)
        E.pins.append(r == rv(val[0]))
        if cplx or val[1] != 0:
            E.pins.append(i == rv(val[1]))

    if kind == 'svd':
        k = min(m, n)
        Hu, Hv = house(m), house(n)
        sv = sorted([Fraction(rnd.randint(0, 6), rnd.randint(1, 3)) for _ in range(k)], reverse=True)
        Uw = [[Hu[i, j] for j in range(k)] for i in range(m)]
        Vw = [[Hv[i, j] for j in range(n)] for i in range(k)]
        for i in range(m):
            for j in range(k):
                pin_elem(outs['U'][i, j], Uw[i][j])
        for i in range(k):
            pin_elem(outs['S'][i], (sv[i], Fraction(0)))
            for j in range(n):
                pin_elem(outs['V'][i, j], Vw[i][j])
        for i in range(m):
            for j in range(n):
                tot = (Fraction(0), Fraction(0))
                for l in range(k):
                    t = cmul(Uw[i][l], Vw[l][j])
                    tot = (tot[0] + sv[l] * t[0], tot[1] + sv[l] * t[1])
                pin_elem(a[i, j], tot)
    elif kind == 'qr':
        k = min(m, n)
        Hq = house(m)
        Rw = [[(Fraction(rnd.randint(-3, 3), rnd.randint(1, 2)), Fraction(rnd.randint(-2, 2) if cplx and i != j else 0)) if j >= i else (Fraction(0), Fraction(0))
               for j in range(n)] for i in range(k)]
        for i in range(m):
            for j in range(k):
                pin_elem(outs['Q'][i, j], Hq[i, j])
        for i in range(k):
            for j in range(i, n):
                pin_elem(outs['R'][i, j], Rw[i][j])
        for i in range(m):
            for j in range(n):
                tot = (Fraction(0), Fraction(0))
                for l in range(k):
                    t = cmul(Hq[i, l], Rw[l][j])
                    tot = (tot[0] + t[0], tot[1] + t[1])
                pin_elem(a[i, j], tot)
    elif kind == 'eigh':
        Hu = house(n)
        ev = sorted(Fraction(rnd.randint(-6, 6), rnd.randint(1, 3)) for _ in range(n))
        for i in range(n):
            pin_elem(outs['S'][i], (ev[i], Fraction(0)))
            for j in range(n):
                pin_elem(outs['U'][i, j], Hu[i, j])
        for i in range(n):
            for j in range(n):
                tot = (Fraction(0), Fraction(0))
                for l in range(n):
                    t = cmul(Hu[i, l], (Hu[j, l][0], -Hu[j, l][1]))
                    tot = (tot[0] + ev[l] * t[0], tot[1] + ev[l] * t[1])
                pin_elem(a[i, j], tot)
