"""
symx.catalogue -- the structure axis (the *bound* of every symx check): deterministic families of tensor shapes.

A tensor spec is a plain JSON-able dict:
  {'sym': 'U1', 'fermionic': False, 's': [1,-1], 'legs': [{'t': [[0],[1]], 'D': [1,2]}, ...], 'n': [0],
   'blocks': None | [[...flat charges...], ...], 'dtype': 'real'|'complex', 'isdiag': False}
Factor combinations are taken from a pairwise (or t-wise) covering array (greedy, seeded) or from the full product.
"""
from __future__ import annotations
import itertools
import random
import numpy as np

SYMS = ('dense', 'Z2', 'Z3', 'U1', 'Z2xU1', 'U1xU1', 'U1xU1xZ2')


def sym_module(name):
    import yastn.sym as S
    from yastn.sym import sym_none, sym_Z2, sym_Z3, sym_U1, sym_U1xU1, sym_U1xU1xZ2, sym_Z2xU1
    return {'dense': sym_none, 'none': sym_none, 'Z2': sym_Z2, 'Z3': sym_Z3, 'U1': sym_U1, 'Z2xU1': sym_Z2xU1,
            'U1xU1': sym_U1xU1, 'U1xU1xZ2': sym_U1xU1xZ2}[name]


def window(name, wide=False):
    u = (-2, -1, 0, 1, 2) if wide else (-1, 0, 1)
    if name in ('dense', 'none'):
        return [()]
    if name == 'Z2':
        return [(0,), (1,)]
    if name == 'Z3':
        return [(0,), (1,), (2,)]
    if name == 'U1':
        return [(x,) for x in (-2, -1, 0, 1, 2)]
    if name == 'Z2xU1':
        return [(a, b) for a in (0, 1) for b in u]
    if name == 'U1xU1':
        return [(a, b) for a in u for b in u]
    if name == 'U1xU1xZ2':
        return [(a, b, c) for a in (-1, 0, 1) for b in (-1, 0, 1) for c in (0, 1)]
    raise KeyError(name)


FERMIONIC_LEVELS = {
    'dense': [False], 'Z2': [False, True], 'Z3': [False], 'U1': [False, True],
    'Z2xU1': [False, True, (True, False), (False, True)],
    'U1xU1': [False, True, (True, False), (False, True)],
    'U1xU1xZ2': [False, True, (False, False, True), (True, True, False)],
}


def fuse(symname, charges, signs, new_s=1):
    """charges: list of charge tuples; returns fused charge tuple using the REAL sym.fuse (structure generation only;
    oracles that check the group law do not use this)."""
    sym = sym_module(symname)
    if sym.NSYM == 0:
        return ()
    arr = np.array(charges, dtype=np.int64).reshape(1, len(charges), sym.NSYM)
    return tuple(sym.fuse(arr, tuple(signs), new_s)[0].tolist())


def covering(factors, seed=0, strength=2, extra=0):
    """greedy t-wise covering array over dict name->levels. Deterministic for a given seed."""
    rng = random.Random(seed)
    names = list(factors)
    levels = [list(factors[n]) for n in names]
    if len(names) <= strength:
        return [dict(zip(names, combo)) for combo in itertools.product(*levels)]
    need = set()
    for cols in itertools.combinations(range(len(names)), strength):
        for vals in itertools.product(*[range(len(levels[c])) for c in cols]):
            need.add((cols, vals))
    rows = []
    while need:
        best, bestc = None, -1
        # seed the row with one uncovered tuple, complete greedily from random candidates
        cols0, vals0 = next(iter(need)) if len(need) < 50 else rng.choice(sorted(need)[:200])
        for _ in range(30):
            row = [rng.randrange(len(l)) for l in levels]
            for c, v in zip(cols0, vals0):
                row[c] = v
            cnt = 0
            for cols in itertools.combinations(range(len(names)), strength):
                if (cols, tuple(row[c] for c in cols)) in need:
                    cnt += 1
            if cnt > bestc:
                best, bestc = row, cnt
        for cols in itertools.combinations(range(len(names)), strength):
            need.discard((cols, tuple(best[c] for c in cols)))
        rows.append(best)
    for _ in range(extra):
        rows.append([rng.randrange(len(l)) for l in levels])
    return [{n: levels[i][r[i]] for i, n in enumerate(names)} for r in rows]


# ----------------------------------------------------------------------------------------------------------------------

def rand_leg(rng, symname, nsect=(1, 2, 3), dims=(1, 2), must_include=None):
    win = window(symname)
    if symname in ('dense', 'none'):
        return {'t': [[]], 'D': [rng.choice([1, 2, 3])]}
    k = min(rng.choice(nsect), len(win))
    ts = set(rng.sample(win, k))
    if must_include is not None:
        ts.add(tuple(must_include))
    ts = sorted(ts)
    return {'t': [list(t) for t in ts], 'D': [rng.choice(dims) for _ in ts]}


def allowed_blocks(symname, s, legs, n):
    out = []
    for combo in itertools.product(*[[tuple(t) for t in l['t']] for l in legs]):
        if tuple(fuse(symname, combo, s, 1)) == tuple(n) if len(s) else True:
            out.append(combo)
    return out


def block_size(legs, combo):
    p = 1
    for l, t in zip(legs, combo):
        p *= l['D'][[tuple(x) for x in l['t']].index(tuple(t))]
    return p


def rand_tensor_spec(rng, symname, rank, n_style='random', drop='none', dims=(1, 2), nsect=(1, 2, 3),
                     max_size=160, dtype='real', fermionic=False, s=None, tries=40, fixed=None, prefer=None):
    """random-but-seeded tensor spec with at least one block (unless drop == 'empty').
    fixed: {position: (signature, leg)} legs imposed from outside (e.g. the partner of a contraction);
    prefer: {position: charge} charges to use (if present on the leg) when choosing the tensor charge n."""
    sym = sym_module(symname)
    fixed = fixed or {}
    prefer = prefer or {}
    for _ in range(tries):
        sig = list(s) if s is not None else [rng.choice([1, -1]) for _ in range(rank)]
        legs = [rand_leg(rng, symname, nsect, dims) for _ in range(rank)]
        for p, (sp, lp) in fixed.items():
            sig[p] = sp
            legs[p] = conj_leg(lp)
        if sym.NSYM == 0:
            n = ()
        else:
            combo = [tuple(rng.choice(l['t'])) for l in legs]
            for p, c in prefer.items():
                if list(c) in legs[p]['t']:
                    combo[p] = tuple(c)
            n0 = fuse(symname, combo, sig, 1) if rank else tuple(sym.zero())
            if n_style == 'zero':
                n = tuple(sym.zero())
            else:
                n = n0
        blocks = allowed_blocks(symname, sig, legs, n) if rank else [()]
        if not blocks:
            continue
        size = sum(block_size(legs, b) for b in blocks)
        if size > max_size:
            dims = (1,) if len(dims) > 1 and rng.random() < 0.5 else dims
            nsect = tuple(x for x in nsect if x < 3) or (1,)
            continue
        sel = None
        if drop == 'some' and len(blocks) > 1:
            keep = [b for b in blocks if rng.random() < 0.6] or [rng.choice(blocks)]
            sel = [sum(b, ()) for b in keep]
        elif drop == 'empty':
            sel = []
        return {'sym': symname, 'fermionic': fermionic, 's': sig, 'legs': legs, 'n': list(n),
                'blocks': None if sel is None else [list(b) for b in sel], 'dtype': dtype, 'isdiag': False}
    return None


def rand_diag_spec(rng, symname, dims=(1, 2, 3), nsect=(1, 2, 3), dtype='real', fermionic=False, s=(1, -1)):
    leg = rand_leg(rng, symname, nsect, dims)
    sym = sym_module(symname)
    return {'sym': symname, 'fermionic': fermionic, 's': list(s), 'legs': [leg, leg], 'n': list(sym.zero()) if sym.NSYM else [],
            'blocks': None, 'dtype': dtype, 'isdiag': True}


def conj_leg(leg):
    return {'t': [list(t) for t in leg['t']], 'D': list(leg['D'])}


def perturb_leg(rng, symname, leg, mode):
    """derive a leg with equal / overlapping / disjoint-ish sector set, consistent dims on common charges."""
    if symname in ('dense', 'none') or mode == 'equal':
        return conj_leg(leg)
    win = [list(t) for t in window(symname)]
    tD = {tuple(t): D for t, D in zip(leg['t'], leg['D'])}
    if mode == 'subset' and len(tD) > 1:
        drop = rng.choice(sorted(tD))
        tD.pop(drop)
    elif mode == 'superset':
        extra = [tuple(t) for t in win if tuple(t) not in tD]
        if extra:
            tD[rng.choice(extra)] = rng.choice([1, 2])
    elif mode == 'overlap':
        extra = [tuple(t) for t in win if tuple(t) not in tD]
        if extra:
            tD[rng.choice(extra)] = rng.choice([1, 2])
        if len(tD) > 2:
            tD.pop(rng.choice(sorted(tD)))
    elif mode == 'disjoint':
        extra = [tuple(t) for t in win if tuple(t) not in tD]
        if extra:
            k = min(len(extra), rng.choice([1, 2]))
            tD = {t: rng.choice([1, 2]) for t in rng.sample(extra, k)}
    ts = sorted(tD)
    return {'t': [list(t) for t in ts], 'D': [tD[t] for t in ts]}


# ----------------------------------------------------------------------------------------------------------------------

def make_config(spec_or_sym, fermionic=None, **kw):
    import yastn
    if isinstance(spec_or_sym, dict):
        symname = spec_or_sym['sym']
        fermionic = spec_or_sym.get('fermionic', False) if fermionic is None else fermionic
    else:
        symname = spec_or_sym
        fermionic = False if fermionic is None else fermionic
    if isinstance(fermionic, list):
        fermionic = tuple(fermionic)
    return yastn.make_config(sym=sym_module(symname), fermionic=fermionic, **kw)


def build(ctx, spec, name, config=None, **cfgkw):
    """create the yastn tensor described by spec through the public API and fill it with ctx inputs."""
    import yastn
    cfg = config if config is not None else make_config(spec, **cfgkw)
    s = tuple(spec['s'])
    n = tuple(spec['n']) if cfg.sym.NSYM else None
    if spec.get('isdiag'):
        a = yastn.Tensor(config=cfg, s=s, isdiag=True)
        leg = spec['legs'][0]
        for t, D in zip(leg['t'], leg['D']):
            a.set_block(ts=tuple(t), Ds=D, val='zeros')
        return ctx.fill(a, name, spec.get('dtype', 'real'))
    a = yastn.Tensor(config=cfg, s=s, n=n)
    if spec.get('blocks') is None:
        legs = [yastn.Leg(cfg, s=si, t=[tuple(t) for t in l['t']], D=list(l['D'])) for si, l in zip(s, spec['legs'])]
        a = yastn.zeros(config=cfg, legs=legs, n=n) if len(s) else yastn.zeros(config=cfg, s=(), n=n)
    else:
        nsym = cfg.sym.NSYM
        for b in spec['blocks']:
            b = tuple(b)
            chs = [b[i * nsym:(i + 1) * nsym] for i in range(len(s))]
            Ds = [l['D'][[tuple(x) for x in l['t']].index(tuple(c))] for l, c in zip(spec['legs'], chs)]
            a.set_block(ts=b, Ds=Ds, val='zeros')
    return ctx.fill(a, name, spec.get('dtype', 'real'))


def spec_size(spec):
    if spec.get('isdiag'):
        return sum(spec['legs'][0]['D'])
    if spec.get('blocks') is not None:
        nsym = len(spec['n'])
        tot = 0
        for b in spec['blocks']:
            chs = [tuple(b[i * nsym:(i + 1) * nsym]) for i in range(len(spec['s']))]
            tot += block_size(spec['legs'], chs)
        return tot
    return sum(block_size(spec['legs'], b) for b in allowed_blocks(spec['sym'], spec['s'], spec['legs'], spec['n']))
