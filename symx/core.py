"""
symx.core -- symbolic scalars over z3 terms + re-execution DFS path exploration.

The real yastn code is executed on numpy ``dtype=object`` arrays whose elements are the scalar
classes below.  Arithmetic builds z3 terms; comparisons return ``SB`` whose ``__bool__`` is the
fork point (decided by the engine: both polarities are tested for feasibility under the current
path condition with z3, infeasible ones are pruned, feasible alternatives are explored by
re-executing the harness function with a longer decision prefix).
"""
from __future__ import annotations
import time
from fractions import Fraction
import numpy as np
import z3


class PathAbort(BaseException):
    """Current path is infeasible / outside the documented domain (counted, not a verdict)."""
    def __init__(self, why='infeasible'):
        super().__init__(why)
        self.why = why


class Inconclusive(BaseException):
    """The engine cannot follow the code symbolically here (concretisation, budget, unknown)."""


class Stats:
    FIELDS = ('paths', 'branches', 'feas_queries', 'queries', 'unsat', 'sat', 'unknown', 'solver_s',
              'aborted_paths', 'obligations', 'concrete_checks', 'x_checked', 'x_agree', 'x_unknown', 'x_disagree')

    def __init__(self):
        for f in self.FIELDS:
            setattr(self, f, 0)

    def as_dict(self):
        return {f: getattr(self, f) for f in self.FIELDS}

    def add(self, other):
        d = other if isinstance(other, dict) else other.as_dict()
        for f in self.FIELDS:
            setattr(self, f, getattr(self, f) + d.get(f, 0))


class Engine:
    def __init__(self, prefix=(), timeout_ms=20000, stats=None, persist=None):
        self.persist = persist if persist is not None else {'alts': {}, 'vals': {}}
        self.solver = z3.Solver()          # everything: assumptions + path condition (decides obligations)
        self.solver.set('timeout', timeout_ms)
        self.fsolver = z3.Solver()         # feasibility of branches: path condition + the 'cheap' assumptions only
        self.fsolver.set('timeout', timeout_ms)   # (an over-approximation of feasibility: sound, may explore vacuous paths)
        self.timeout_ms = timeout_ms
        self.decisions = list(prefix)
        self.nprefix = len(prefix)
        self.pos = 0
        self.alts = {}            # position -> other polarity feasible (only for new decisions)
        self.constraints = []     # everything added to the solver (assumptions + path condition)
        self.nfresh = 0
        self.stats = stats if stats is not None else Stats()

    # -- symbols
    def fresh_real(self, name='t'):
        self.nfresh += 1
        return z3.Real(f'{name}!{self.nfresh}')

    def fresh_int(self, name='k'):
        self.nfresh += 1
        return z3.Int(f'{name}!{self.nfresh}')

    def assume(self, c, feas=True):
        """feas=False: constraint is used for obligations only, not for pruning branches (non-linear contract equations)."""
        if isinstance(c, SB):
            c = c.c
        if isinstance(c, (bool, np.bool_)):
            if not c:
                raise PathAbort('assume(False)')
            return
        self.constraints.append(c)
        self.solver.add(c)
        if feas:
            self.fsolver.add(c)

    def in_prefix(self):
        """True while decisions are still being replayed: obligations met here were already decided."""
        return self.pos < self.nprefix

    def _feasible(self, c):
        self.stats.feas_queries += 1
        t0 = time.time()
        self.fsolver.push()
        self.fsolver.add(c)
        r = self.fsolver.check()
        self.fsolver.pop()
        self.stats.solver_s += time.time() - t0
        return r != z3.unsat   # unknown -> explore (sound for the verdict; obligations are decided separately)

    def branch(self, cond):
        if isinstance(cond, (bool, np.bool_)):
            return bool(cond)
        cond = z3.simplify(cond)
        if z3.is_true(cond):
            return True
        if z3.is_false(cond):
            return False
        self.stats.branches += 1
        if self.pos < len(self.decisions):
            taken = self.decisions[self.pos]
            self.pos += 1
        else:
            t_ok = self._feasible(cond)
            f_ok = self._feasible(z3.Not(cond))
            if not t_ok and not f_ok:
                raise PathAbort('infeasible')
            taken = t_ok
            self.alts[self.pos] = (f_ok if t_ok else False)
            self.decisions.append(taken)
            self.pos += 1
        c = cond if taken else z3.Not(cond)
        self.constraints.append(c)
        self.solver.add(c)
        self.fsolver.add(c)
        return taken

    # -- obligations
    def decide(self, negated_goal, timeout_ms=None):
        """returns ('unsat'|'sat'|'unknown', model_or_None). unsat == goal holds for all values on this path.
        Escalation (every stage asks the same question; only 'unsat' from the reduced stage is used, which is sound because dropping
        assumptions can only make the negated goal easier to satisfy):
          1. incremental solver, short timeout   2. fresh solver on the cone of influence of the goal (assumptions sharing symbols, transitively)
          3. fresh solver on everything, full timeout"""
        self.stats.queries += 1
        t0 = time.time()
        T = timeout_ms or self.timeout_ms
        self.solver.push()
        self.solver.set('timeout', min(T, 3000))
        self.solver.add(negated_goal)
        r = self.solver.check()
        model = self.solver.model() if r == z3.sat else None
        self.solver.pop()
        self.solver.set('timeout', self.timeout_ms)
        if r == z3.unknown:
            coi = self._cone(negated_goal)
            if len(coi) < len(self.constraints):
                s1 = z3.Solver()
                s1.set('timeout', min(T, 20000))
                s1.add(coi)
                s1.add(negated_goal)
                if s1.check() == z3.unsat:
                    r = z3.unsat
        if r == z3.unknown:
            s2 = z3.Solver()
            s2.set('timeout', T)
            s2.add(self.constraints)
            s2.add(negated_goal)
            r = s2.check()
            model = s2.model() if r == z3.sat else None
        self.stats.solver_s += time.time() - t0
        rs = str(r)
        setattr(self.stats, rs, getattr(self.stats, rs) + 1)
        if rs == 'unsat' and XSOLVER['every']:
            self._second_solver(negated_goal)
        return rs, model

    def _second_solver(self, negated_goal):
        """differential check of the encoding: every k-th `unsat` verdict of z3 is put to cvc5 (SMT-LIB2 file, small time limit).  cvc5 `sat`
        against z3 `unsat` is a disagreement (reported, makes the run inconclusive); cvc5 unknown / timeout is only counted."""
        XSOLVER['n'] += 1
        if XSOLVER['n'] % XSOLVER['every'] or self.stats.x_checked >= XSOLVER['max']:
            return
        import subprocess, tempfile, os
        s2 = z3.Solver()
        s2.add(self.constraints)
        s2.add(negated_goal)
        txt = s2.to_smt2()
        if len(txt) > 400000:
            return
        self.stats.x_checked += 1
        fd, path = tempfile.mkstemp(suffix='.smt2', prefix='symx_x_')
        try:
            with os.fdopen(fd, 'w') as f:
                f.write('(set-logic ALL)\n' + txt)
            try:
                out = subprocess.run(['cvc5', '--lang=smt2', f'--tlimit={XSOLVER["tlimit_ms"]}', path], capture_output=True, text=True, timeout=XSOLVER['tlimit_ms'] / 1000 + 5).stdout
            except Exception:
                out = 'unknown'
        finally:
            try:
                os.unlink(path)
            except OSError:
                pass
        first = (out.strip().splitlines() or ['unknown'])[0].strip()
        if '(error' in out:
            first = 'unknown'
        if first == 'unsat':
            self.stats.x_agree += 1
        elif first == 'sat':
            self.stats.x_disagree += 1
        else:
            self.stats.x_unknown += 1

    def _cone(self, goal):
        if not hasattr(self, '_cvars'):
            self._cvars = {}
        def vars_of(e):
            out, seen, stack = set(), set(), [e]
            while stack:
                x = stack.pop()
                i = x.get_id()
                if i in seen:
                    continue
                seen.add(i)
                if z3.is_const(x) and x.decl().kind() == z3.Z3_OP_UNINTERPRETED:
                    out.add(i)
                else:
                    stack.extend(x.children())
            return out
        cv = []
        for c in self.constraints:
            i = c.get_id()
            if i not in self._cvars:
                self._cvars[i] = vars_of(c)
            cv.append(self._cvars[i])
        live = vars_of(goal)
        keep = [False] * len(cv)
        changed = True
        while changed:
            changed = False
            for k, v in enumerate(cv):
                if not keep[k] and v & live:
                    keep[k] = True
                    if not v <= live:
                        live |= v
                    changed = True
        return [c for c, k in zip(self.constraints, keep) if k]


XSOLVER = {'every': int(__import__('os').environ.get('SYMX_XSOLVER_EVERY', '0') or 0), 'max': 12, 'tlimit_ms': 4000, 'n': 0}

ENG: Engine | None = None


def explore(fn, max_paths=20000, timeout_ms=20000, stats=None, deadline=None):
    """Run fn() on every feasible path.  Yields (engine, result_or_exception)."""
    global ENG
    stats = stats if stats is not None else Stats()
    prefix = []
    npaths = 0
    persist = {'alts': {}, 'vals': {}}
    while True:
        ENG = Engine(prefix, timeout_ms=timeout_ms, stats=stats, persist=persist)
        eng = ENG
        try:
            res = fn()
            stats.paths += 1
            yield eng, res
        except PathAbort as e:
            stats.aborted_paths += 1
            yield eng, e
        npaths += 1
        dec = eng.decisions[:eng.pos]
        # record alternatives found on this run into the persistent table keyed by prefix tuple
        alts = persist['alts']
        for p, other in eng.alts.items():
            alts[tuple(dec[:p])] = other
        nxt = None
        for i in range(len(dec) - 1, -1, -1):
            key = tuple(dec[:i])
            if alts.get(key, False) and dec[i] is True:
                alts[key] = False
                nxt = dec[:i] + [False]
                break
        if nxt is None:
            return
        if npaths >= max_paths or (deadline is not None and time.time() > deadline):
            raise Inconclusive(f'path budget exhausted after {npaths} paths')
        prefix = nxt


# ------------------------------------------------------------------------------------------------
# conversions

_INF = float('inf')


def _is_real_const(x):
    return isinstance(x, (bool, np.bool_, int, np.integer, float, np.floating, Fraction))


def _is_cplx_const(x):
    return isinstance(x, (complex, np.complexfloating))


def rv(x):
    """python real constant -> z3 RealVal (exact rational of the double)."""
    if isinstance(x, (bool, np.bool_)):
        return z3.RealVal(int(x))
    if isinstance(x, (int, np.integer)):
        return z3.RealVal(int(x))
    if isinstance(x, Fraction):
        return z3.RealVal(str(x))
    if isinstance(x, (float, np.floating)):
        x = float(x)
        if x != x or x in (_INF, -_INF):
            raise Inconclusive('non-finite float constant reached symbolic arithmetic')
        return z3.RealVal(str(Fraction(x)))
    raise TypeError(type(x))


def zr(x):
    """anything real-valued -> z3 real term"""
    if isinstance(x, SV):
        return x.e
    if isinstance(x, SI):
        return z3.ToReal(x.e)
    if _is_real_const(x):
        return rv(x)
    if isinstance(x, np.ndarray) and x.ndim == 0:
        return zr(x.item())
    if isinstance(x, SC):
        raise TypeError('complex value where real expected')
    raise TypeError(type(x))


def zc(x):
    """anything -> (re, im) pair of z3 real terms"""
    if isinstance(x, SC):
        return x.re, x.im
    if _is_cplx_const(x):
        return rv(float(x.real)), rv(float(x.imag))
    if isinstance(x, np.ndarray) and x.ndim == 0:
        return zc(x.item())
    return zr(x), _ZERO


_ZERO = z3.RealVal(0)
_ONE = z3.RealVal(1)


def is_sym(x):
    return isinstance(x, (SV, SC, SI, SB))


# ------------------------------------------------------------------------------------------------

class SB:
    """symbolic boolean; bool() forks."""
    __slots__ = ('c',)

    def __init__(self, c):
        self.c = c

    def __bool__(self):
        return ENG.branch(self.c)

    @staticmethod
    def _c(o):
        return o.c if isinstance(o, SB) else z3.BoolVal(bool(o))

    def __and__(self, o): return SB(z3.And(self.c, SB._c(o)))
    __rand__ = __and__
    def __or__(self, o): return SB(z3.Or(self.c, SB._c(o)))
    __ror__ = __or__
    def __invert__(self): return SB(z3.Not(self.c))
    def __repr__(self): return f'SB({self.c})'


def _cmp_inf(op, positive):
    # comparison of a finite real with +-inf
    return {('lt', True): True, ('le', True): True, ('gt', True): False, ('ge', True): False,
            ('eq', True): False, ('ne', True): True,
            ('lt', False): False, ('le', False): False, ('gt', False): True, ('ge', False): True,
            ('eq', False): False, ('ne', False): True}[(op, positive)]


class SV:
    """symbolic real"""
    __slots__ = ('e',)

    def __init__(self, e):
        self.e = e

    # arithmetic ---------------------------------------------------------------------------------
    def __add__(self, o):
        if isinstance(o, SC) or _is_cplx_const(o):
            return SC(self.e, _ZERO) + o
        try:
            if _is_real_const(o) and o == 0:
                return self
            return SV(self.e + zr(o))
        except TypeError:
            return NotImplemented
    __radd__ = __add__

    def __sub__(self, o):
        if isinstance(o, SC) or _is_cplx_const(o):
            return SC(self.e, _ZERO) - o
        try:
            if _is_real_const(o) and o == 0:
                return self
            return SV(self.e - zr(o))
        except TypeError:
            return NotImplemented

    def __rsub__(self, o):
        if _is_cplx_const(o):
            return o - SC(self.e, _ZERO)
        try:
            return SV(zr(o) - self.e)
        except TypeError:
            return NotImplemented

    def __mul__(self, o):
        if isinstance(o, SC) or _is_cplx_const(o):
            return SC(self.e, _ZERO) * o
        try:
            if _is_real_const(o):
                if o == 1:
                    return self
                if o == 0:
                    return SV(_ZERO)
                if isinstance(o, (float, np.floating)) and float(o) in (_INF, -_INF):
                    # IEEE semantics of (+-inf) * x, decided by the sign of x on this path: a concrete float comes back
                    if ENG.branch(self.e > 0):
                        return float(o)
                    if ENG.branch(self.e < 0):
                        return -float(o)
                    return float('nan')
            return SV(self.e * zr(o))
        except TypeError:
            return NotImplemented
    __rmul__ = __mul__

    def __truediv__(self, o):
        if isinstance(o, SC) or _is_cplx_const(o):
            return SC(self.e, _ZERO) / o
        try:
            d = zr(o)
        except TypeError:
            return NotImplemented
        _nonzero(d)
        return SV(self.e / d)

    def __rtruediv__(self, o):
        if _is_cplx_const(o):
            return SC(*zc(o)) / self
        try:
            n = zr(o)
        except TypeError:
            return NotImplemented
        _nonzero(self.e)
        return SV(n / self.e)

    def __pow__(self, k):
        if isinstance(k, (int, np.integer)) and not isinstance(k, bool):
            k = int(k)
            if k >= 0:
                r = _ONE
                for _ in range(k):
                    r = r * self.e
                return SV(r)
            _nonzero(self.e)
            return SV(_ONE / (self ** (-k)).e)
        if isinstance(k, (float, np.floating)) and float(k) == 0.5:
            return self.sqrt()
        if isinstance(k, (float, np.floating)) and float(k).is_integer():
            return self ** int(k)
        raise Inconclusive(f'unsupported symbolic power {k!r}')

    def __neg__(self): return SV(-self.e)
    def __pos__(self): return self

    def __abs__(self):
        return SV(z3.If(self.e >= 0, self.e, -self.e))

    def conjugate(self): return self
    conj = conjugate
    def copy(self): return self

    @property
    def real(self): return self

    @property
    def imag(self): return SV(_ZERO)

    def sqrt(self):
        if not ENG.branch(self.e >= 0):
            raise PathAbort('sqrt of negative')
        # sqrt is a function: the same argument term (z3 terms are hash-consed) on the same path gets the same symbol
        memo = getattr(ENG, 'sqrt_memo', None)
        if memo is None:
            memo = ENG.sqrt_memo = {}
        k = self.e.get_id()
        if k in memo:
            return SV(memo[k][1])
        y = ENG.fresh_real('sqrt')
        ENG.assume(z3.And(y >= 0, y * y == self.e))
        memo[k] = (self.e, y)
        return SV(y)

    def exp(self):
        return SV(_uf('exp')(self.e))

    def cosh(self):
        return SV(_uf('cosh')(self.e))

    def sinh(self):
        return SV(_uf('sinh')(self.e))

    def log2(self):
        return SV(_uf('log2')(self.e))

    def log(self):
        return SV(_uf('log')(self.e))

    # comparisons --------------------------------------------------------------------------------
    def _cmp(self, o, op):
        if isinstance(o, (float, np.floating)) and float(o) in (_INF, -_INF):
            return _cmp_inf(op, float(o) > 0)
        if isinstance(o, (float, np.floating)) and o != o:
            return op == 'ne'          # IEEE: every comparison with nan is False, != is True
        if isinstance(o, SC) or _is_cplx_const(o):
            if op in ('eq', 'ne'):
                return getattr(SC(self.e, _ZERO), f'__{op}__')(o)
            raise TypeError('ordering comparison with complex')
        try:
            z = zr(o)
        except TypeError:
            return NotImplemented
        e = self.e
        return SB({'lt': e < z, 'le': e <= z, 'gt': e > z, 'ge': e >= z, 'eq': e == z, 'ne': e != z}[op])

    def __lt__(self, o): return self._cmp(o, 'lt')
    def __le__(self, o): return self._cmp(o, 'le')
    def __gt__(self, o): return self._cmp(o, 'gt')
    def __ge__(self, o): return self._cmp(o, 'ge')
    def __eq__(self, o): return self._cmp(o, 'eq')
    def __ne__(self, o): return self._cmp(o, 'ne')
    def __hash__(self): return 0
    def __bool__(self): return ENG.branch(self.e != 0)

    def __float__(self): raise Inconclusive('float() of a symbolic real (concretisation)')
    def __int__(self): raise Inconclusive('int() of a symbolic real (concretisation)')
    def __complex__(self): raise Inconclusive('complex() of a symbolic real (concretisation)')
    def __repr__(self): return f'SV({self.e})'


def _nonzero(d):
    """division: follow the d != 0 path; the d == 0 path is outside the domain of exact arithmetic."""
    if z3.is_rational_value(d):
        if d.numerator_as_long() == 0:
            raise PathAbort('division by zero')
        return
    if not ENG.branch(d != 0):
        raise PathAbort('division by zero')


_UFS = {}


def _uf(name):
    if name not in _UFS:
        _UFS[name] = z3.Function(name, z3.RealSort(), z3.RealSort())
    return _UFS[name]


class SC:
    """symbolic complex = pair of real terms"""
    __slots__ = ('re', 'im')

    def __init__(self, re, im):
        self.re = re
        self.im = im

    def __add__(self, o):
        try:
            r, i = zc(o)
        except TypeError:
            return NotImplemented
        return SC(self.re + r, self.im + i)
    __radd__ = __add__

    def __sub__(self, o):
        try:
            r, i = zc(o)
        except TypeError:
            return NotImplemented
        return SC(self.re - r, self.im - i)

    def __rsub__(self, o):
        try:
            r, i = zc(o)
        except TypeError:
            return NotImplemented
        return SC(r - self.re, i - self.im)

    def __mul__(self, o):
        if _is_real_const(o):
            if o == 1:
                return self
            k = rv(o)
            return SC(self.re * k, self.im * k)
        if isinstance(o, SV):
            return SC(self.re * o.e, self.im * o.e)
        try:
            r, i = zc(o)
        except TypeError:
            return NotImplemented
        return SC(self.re * r - self.im * i, self.re * i + self.im * r)
    __rmul__ = __mul__

    def __truediv__(self, o):
        try:
            r, i = zc(o)
        except TypeError:
            return NotImplemented
        if i is _ZERO:
            _nonzero(r)
            return SC(self.re / r, self.im / r)
        d = r * r + i * i
        _nonzero(d)
        return SC((self.re * r + self.im * i) / d, (self.im * r - self.re * i) / d)

    def __rtruediv__(self, o):
        try:
            r, i = zc(o)
        except TypeError:
            return NotImplemented
        return SC(r, i) / self

    # transcendental functions of a complex argument through the real uninterpreted functions exp, cos, sin, cosh, sinh
    def exp(self):
        e = _uf('exp')(self.re)
        return SC(e * _uf('cos')(self.im), e * _uf('sin')(self.im))

    def cosh(self):
        return SC(_uf('cosh')(self.re) * _uf('cos')(self.im), _uf('sinh')(self.re) * _uf('sin')(self.im))

    def sinh(self):
        return SC(_uf('sinh')(self.re) * _uf('cos')(self.im), _uf('cosh')(self.re) * _uf('sin')(self.im))

    def __pow__(self, k):
        if isinstance(k, (int, np.integer)) and int(k) >= 0:
            r = SC(_ONE, _ZERO)
            for _ in range(int(k)):
                r = r * self
            return r
        raise Inconclusive(f'unsupported symbolic complex power {k!r}')

    def __neg__(self): return SC(-self.re, -self.im)
    def __pos__(self): return self

    def __abs__(self):
        return SV(self.re * self.re + self.im * self.im).sqrt()

    def conjugate(self): return SC(self.re, -self.im)
    conj = conjugate
    def copy(self): return self

    @property
    def real(self): return SV(self.re)

    @property
    def imag(self): return SV(self.im)

    def __eq__(self, o):
        try:
            r, i = zc(o)
        except TypeError:
            return NotImplemented
        return SB(z3.And(self.re == r, self.im == i))

    def __ne__(self, o):
        try:
            r, i = zc(o)
        except TypeError:
            return NotImplemented
        return SB(z3.Or(self.re != r, self.im != i))

    def __hash__(self): return 0
    def __bool__(self): return ENG.branch(z3.Or(self.re != 0, self.im != 0))
    def __float__(self): raise Inconclusive('float() of a symbolic complex')
    def __complex__(self): raise Inconclusive('complex() of a symbolic complex (concretisation)')
    def __repr__(self): return f'SC({self.re}, {self.im})'


# ------------------------------------------------------------------------------------------------

def zi(x):
    if isinstance(x, SI):
        return x.e
    if isinstance(x, (bool, np.bool_)):
        return z3.IntVal(int(x))
    if isinstance(x, (int, np.integer)):
        return z3.IntVal(int(x))
    if isinstance(x, (float, np.floating)) and float(x).is_integer():
        return z3.IntVal(int(x))
    if isinstance(x, np.ndarray) and x.ndim == 0:
        return zi(x.item())
    raise TypeError(type(x))


class SI:
    """symbolic (mathematical) integer; Python floor-division / modulo semantics for positive constant moduli."""
    __slots__ = ('e',)

    def __init__(self, e):
        self.e = e

    def _bin(self, o, f):
        try:
            return type(self)(f(self.e, zi(o)))
        except TypeError:
            return NotImplemented

    def __add__(self, o): return self._bin(o, lambda a, b: a + b)
    __radd__ = __add__
    def __sub__(self, o): return self._bin(o, lambda a, b: a - b)
    def __rsub__(self, o): return self._bin(o, lambda a, b: b - a)
    def __mul__(self, o): return self._bin(o, lambda a, b: a * b)
    __rmul__ = __mul__
    def __neg__(self): return type(self)(-self.e)
    def __pos__(self): return self
    def __abs__(self): return type(self)(z3.If(self.e >= 0, self.e, -self.e))

    def __mod__(self, o):
        m = zi(o)
        if not z3.is_int_value(m) or m.as_long() <= 0:
            raise Inconclusive('symbolic modulo with non-constant or non-positive modulus')
        return type(self)(self.e % m)      # SMT-LIB mod with positive divisor == Python %

    def fmod(self, o):
        """C fmod (sign of the dividend), as np.fmod on integers"""
        m = zi(o)
        if not z3.is_int_value(m) or m.as_long() <= 0:
            raise Inconclusive('symbolic fmod with non-constant or non-positive modulus')
        return type(self)(z3.If(self.e >= 0, self.e % m, -((-self.e) % m)))

    def remainder(self, o):
        return self % o

    def __floordiv__(self, o):
        m = zi(o)
        if not z3.is_int_value(m) or m.as_long() <= 0:
            raise Inconclusive('symbolic floor-division with non-constant or non-positive divisor')
        return type(self)(self.e / m)      # SMT-LIB div with positive divisor == floor

    def _cmp(self, o, op):
        try:
            z = zi(o)
        except TypeError:
            return NotImplemented
        e = self.e
        return SB({'lt': e < z, 'le': e <= z, 'gt': e > z, 'ge': e >= z, 'eq': e == z, 'ne': e != z}[op])

    def __lt__(self, o): return self._cmp(o, 'lt')
    def __le__(self, o): return self._cmp(o, 'le')
    def __gt__(self, o): return self._cmp(o, 'gt')
    def __ge__(self, o): return self._cmp(o, 'ge')
    def __eq__(self, o): return self._cmp(o, 'eq')
    def __ne__(self, o): return self._cmp(o, 'ne')
    def __hash__(self): return 0
    def __bool__(self): return ENG.branch(self.e != 0)

    def concretize(self):
        """solver-driven enumeration of the feasible values of this integer on the current path."""
        e = z3.simplify(self.e)
        if z3.is_int_value(e):
            return e.as_long()
        while True:
            eng = ENG
            key = (tuple(eng.decisions[:eng.pos]), e.sexpr())
            if key in eng.persist['vals']:      # same candidate as on the earlier run through this point
                if eng.branch(e == eng.persist['vals'][key]):
                    return eng.persist['vals'][key]
                continue
            eng.stats.feas_queries += 1
            t0 = time.time()
            r = eng.fsolver.check()
            eng.stats.solver_s += time.time() - t0
            if r != z3.sat:
                if r == z3.unsat:
                    raise PathAbort('infeasible')
                raise Inconclusive('unknown while enumerating an integer')
            v = eng.fsolver.model().eval(e, model_completion=True).as_long()
            eng.persist['vals'][key] = v
            if eng.branch(e == v):
                return v

    def __int__(self): return self.concretize()
    __index__ = __int__
    def __float__(self): return float(self.concretize())
    def conjugate(self): return self
    def copy(self): return self
    def __repr__(self): return f'SI({self.e})'


class SIK(SI):
    """symbolic integer usable as (part of) a dict key: hashing concretises it (forks over its feasible values)."""
    __slots__ = ()

    def __hash__(self): return hash(self.concretize())


# ------------------------------------------------------------------------------------------------
# helpers for building arrays

def real_array(name, n):
    return np.array([SV(z3.Real(f'{name}_{i}')) for i in range(n)] + [None], dtype=object)[:-1].copy()


def complex_array(name, n):
    return np.array([SC(z3.Real(f'{name}_{i}r'), z3.Real(f'{name}_{i}i')) for i in range(n)] + [None], dtype=object)[:-1].copy()


def model_value(model, term):
    v = model.eval(term, model_completion=True)
    if z3.is_rational_value(v):
        return Fraction(v.numerator_as_long(), v.denominator_as_long())
    if z3.is_int_value(v):
        return Fraction(v.as_long())
    if z3.is_algebraic_value(v):
        a = v.approx(30)
        return Fraction(a.numerator_as_long(), a.denominator_as_long())
    raise Inconclusive(f'cannot read model value {v}')
