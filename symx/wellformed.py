"""
symx.wellformed -- the C02 obligation attached to every tensor a harness obtains from a public yastn operation.

Independent of yastn's own is_consistent (which is run too): the group law used here is the harness' own modular
arithmetic (MODULI table), not sym.fuse.
"""
from __future__ import annotations
import itertools
import numpy as np

MODULI = {'dense': (), 'Z2': (2,), 'Z3': (3,), 'U1': (0,), 'U(1)': (0,), 'Z2xU1': (2, 0), 'U1xU1': (0, 0), 'U1xU1xZ2': (0, 0, 2)}


def gadd(symid, charges, signs, new_s=1):
    """harness group law: new_s * sum_i signs[i] * charges[i], component-wise, reduced to the canonical range."""
    mod = MODULI[symid]
    out = []
    for k, m in enumerate(mod):
        v = new_s * sum(s * c[k] for s, c in zip(signs, charges))
        out.append(v % m if m else v)
    return tuple(out)


def wellformed(ctx, c, label, expect_n=None, check_dense_zero=True):
    from yastn import YastnError
    cfg = c.config
    symid = cfg.sym.SYM_ID
    nsym = cfg.sym.NSYM
    st = c.struct
    nd = len(st.s)
    ck = ctx.check
    # --- yastn's own test
    try:
        ok = c.is_consistent()
    except (AssertionError, YastnError) as e:
        ck(False, f'{label}:is_consistent', f'{type(e).__name__}: {e}')
    # --- python ints everywhere
    ck(all(type(x) is int for x in st.s) and all(x in (-1, 1) for x in st.s), f'{label}:signature-ints', st.s)
    ck(isinstance(st.n, tuple) and len(st.n) == nsym and all(type(x) is int for x in st.n), f'{label}:n-ints', st.n)
    ck(all(type(y) is int for x in st.t for y in x) and all(type(y) is int for x in st.D for y in x), f'{label}:tD-ints')
    ck(type(st.size) is int and type(st.diag) is bool, f'{label}:size-int')
    # --- blocks unique, sorted, right length
    ck(len(st.t) == len(st.D) == len(c.slices), f'{label}:lengths', (len(st.t), len(st.D), len(c.slices)))
    ck(all(len(t) == nd * nsym for t in st.t) and all(len(D) == nd for D in st.D), f'{label}:block-shapes')
    ck(all(st.t[i] < st.t[i + 1] for i in range(len(st.t) - 1)), f'{label}:blocks-sorted-unique', st.t)
    ck(all(d > 0 for D in st.D for d in D), f'{label}:positive-dims', st.D)
    # --- charge rule per block (harness group law)
    if expect_n is not None:
        ck(tuple(st.n) == tuple(expect_n), f'{label}:total-charge', f'n={st.n} expected {tuple(expect_n)}')
    ck(gadd(symid, [st.n], [1]) == tuple(st.n), f'{label}:n-canonical', st.n)
    for t in st.t:
        chs = [t[i * nsym:(i + 1) * nsym] for i in range(nd)]
        ck(all(gadd(symid, [ch], [1]) == tuple(ch) for ch in chs), f'{label}:charges-canonical', t)
        if st.diag:
            ck(chs[0] == chs[1], f'{label}:diag-block-charges', t)
        ck(gadd(symid, chs, st.s) == tuple(st.n), f'{label}:charge-rule', f't={t} s={st.s} n={st.n}')
    # --- slices contiguous, Dp, size
    lo = 0
    for D, sl in zip(st.D, c.slices):
        Dp = D[0] if st.diag else int(np.prod(D, dtype=np.int64)) if len(D) else 1
        ck(len(sl.slcs) == 1 and tuple(sl.slcs[0]) == (lo, lo + Dp) and sl.Dp == Dp and tuple(sl.D) == tuple(D),
           f'{label}:slices', (sl, D, lo))
        if st.diag:
            ck(D[0] == D[1], f'{label}:diag-square', D)
        lo += Dp
    ck(st.size == lo, f'{label}:size', (st.size, lo))
    ck(c._data.ndim == 1 and c._data.shape[0] == lo, f'{label}:data-length', (c._data.shape, lo))
    if c._data.dtype == object:
        ck(not any(x is None for x in c._data), f'{label}:uninitialised-data', 'None element (np.empty never written)')
    # --- per-leg charge -> dimension functional
    for i in range(nd):
        m = {}
        for t, D in zip(st.t, st.D):
            ch = t[i * nsym:(i + 1) * nsym]
            ck(m.setdefault(ch, D[i]) == D[i], f'{label}:leg-dims-functional', (i, ch))
    # --- fusion bookkeeping
    ck(len(c.hfs) == nd, f'{label}:hfs-length', (len(c.hfs), nd))
    for s, hf in zip(st.s, c.hfs):
        ck(hf.s[0] == s and len(hf.tree) == len(hf.op) == len(hf.s) == len(hf.t) + 1 == len(hf.D) + 1,
           f'{label}:hfs-shape', hf)
        ck(hf.tree[0] == sum(1 for x in hf.tree if x == 1), f'{label}:hfs-tree', hf.tree)
        for tt, DD in zip(hf.t, hf.D):
            ck(len(tt) == len(DD) and all(d > 0 for d in DD), f'{label}:hfs-tD', hf)
    ck(sum(mf[0] for mf in c.mfs) == nd, f'{label}:mfs-cover', (c.mfs, nd))
    ck(sorted(c.trans) == list(range(nd)), f'{label}:trans-permutation', c.trans)
    # --- top-level charges of hard-fused legs are reachable from their sub-spaces
    for i, hf in enumerate(c.hfs):
        if hf.tree[0] > 1 and hf.op[0] == 'p':
            _check_hf_top(ctx, c, i, hf, label)
    # --- dense elements outside the allowed sectors are the constant 0
    if check_dense_zero and nd and not st.diag and lo <= 400:
        _dense_zero(ctx, c, label)


def _children(hf):
    """split a product/sum node into (signature, charges, dims) of its direct children using tree bookkeeping."""
    tree, s = hf.tree, hf.s
    kids = []
    pos = 1
    while pos < len(tree):
        n = tree[pos]
        # subtree length: count nodes until n leaves are seen
        leaves, end = 0, pos
        while True:
            if tree[end] == 1:
                leaves += 1
            end += 1
            if leaves == n:
                break
        kids.append((s[pos], hf.t[pos - 1], hf.D[pos - 1]))
        pos = end
    return kids


def _check_hf_top(ctx, c, i, hf, label):
    symid = c.config.sym.SYM_ID
    nsym = c.config.sym.NSYM
    kids = _children(hf)
    reach = {}
    for combo in itertools.product(*[list(zip(t, D)) for _, t, D in kids]):
        ch = gadd(symid, [x[0] for x in combo], [k[0] for k in kids], hf.s[0])
        reach[ch] = reach.get(ch, 0) + int(np.prod([x[1] for x in combo]))
    for t, D in zip(c.struct.t, c.struct.D):
        ch = t[i * nsym:(i + 1) * nsym]
        ctx.check(ch in reach and reach[ch] == D[i], f'{label}:hfs-top-consistent',
                  f'leg {i} charge {ch} dim {D[i]} vs product of sub-spaces {reach.get(ch)}')


def _dense_zero(ctx, c, label):
    """yastn's own to_numpy(native=True): every element whose index charges violate the rule must be the constant 0."""
    from .dense import offsets
    symid = c.config.sym.SYM_ID
    legs = c.get_legs(native=True)
    s_log = c.get_signature(native=True)
    arr = c.to_numpy(native=True)
    ctx.check(arr.shape == tuple(sum(l.D) for l in legs), f'{label}:dense-shape', (arr.shape,))
    bad = []
    for combo in itertools.product(*[l.t for l in legs]):
        if gadd(symid, combo, s_log) == tuple(c.n):
            continue
        sl = tuple(slice(*offsets(l)[0][tuple(t)]) for l, t in zip(legs, combo))
        bad.extend(arr[sl].ravel().tolist())
    if bad:
        if arr.dtype == object:
            ctx.check(all((type(x) in (int, float) and x == 0) for x in bad), f'{label}:dense-zero-outside-sectors',
                      'non-constant element outside symmetry-allowed sectors')
        else:
            ctx.check(all(x == 0 for x in bad), f'{label}:dense-zero-outside-sectors')
