"""./check <property> [--tier quick|thorough] [--replay path]"""
import argparse
import importlib
import os
import sys

VERIF = os.path.dirname(os.path.dirname(os.path.abspath(__file__)))
sys.path.insert(0, VERIF)

# property -> harness module name (harness/<name>.py); modules with their own `main(tier, seed)` drive themselves
HARNESS = {p: p for p in ['C01', 'C02', 'C03', 'C04', 'C05', 'C06', 'C07', 'C08', 'C11', 'C13', 'C14', 'C15', 'C16', 'C17', 'C19', 'C20']}


def main():
    ap = argparse.ArgumentParser()
    ap.add_argument('property')
    ap.add_argument('--tier', default=os.environ.get('VERIF_TIER', 'quick'), choices=['quick', 'thorough'])
    ap.add_argument('--replay', default=None)
    ap.add_argument('--seed', type=int, default=int(os.environ.get('VERIF_SEED', '0')))
    args = ap.parse_args()
    from symx import runner
    if args.replay:
        sys.exit(runner.replay_file(args.replay))
    hname = HARNESS[args.property]
    h = importlib.import_module(f'harness.{hname}')
    if hasattr(h, 'main'):
        sys.exit(h.main(args.tier, args.seed))
    if args.tier == 'thorough' and 'SYMX_XSOLVER_EVERY' not in os.environ:
        os.environ['SYMX_XSOLVER_EVERY'] = '9'       # second solver (cvc5) re-checks a sample of z3's unsat verdicts; inherited by the workers
    sys.exit(runner.main_check(args.property, hname, args.tier, args.seed))


if __name__ == '__main__':
    main()
