"""
symx.dense -- independent dense re-assembly of a yastn tensor from its public block access + get_legs,
and plain-NumPy reference operations on the resulting (object or float) arrays.
No function here calls to_numpy / to_dense / to_nonsymmetric (those are themselves under test).
"""
from __future__ import annotations
import itertools
import numpy as np


def _dtype_of(a):
    return object if a._data.dtype == object else (np.complex128 if np.iscomplexobj(a._data) else np.float64)


def offsets(leg):
    off, lo = {}, 0
    for t, D in zip(leg.t, leg.D):
        off[tuple(t)] = (lo, lo + D)
        lo += D
    return off, lo


def reassemble(a, legs=None):
    """native dense array of `a` in its logical (lazy-transposed) leg order, from a[block] and get_legs(native=True).
    legs: optional list of (wider) native legs to embed into (sectors missing in `a` are zero)."""
    from yastn import YastnError
    own = list(a.get_legs(native=True)) if a.ndim_n else []
    use = list(legs) if legs is not None else own
    offs = [offsets(l) for l in use]
    shape = tuple(o[1] for o in offs)
    out = np.zeros(shape, dtype=_dtype_of(a))
    if a.ndim_n == 0:
        out = np.zeros((), dtype=_dtype_of(a))
        try:
            out[()] = a[()].reshape(())[()] if a.size else 0
        except YastnError:
            pass
        return out
    if a.isdiag:
        leg = own[0]
        for t in leg.t:
            try:
                blk = a[tuple(t) + tuple(t)]
            except YastnError:
                continue
            lo, hi = offs[0][0][tuple(t)]
            lo1, hi1 = offs[1][0][tuple(t)]
            for k in range(hi - lo):
                out[lo + k, lo1 + k] = blk[k]
        return out
    for combo in itertools.product(*[l.t for l in own]):
        key = sum((tuple(t) for t in combo), ())
        try:
            blk = a[key]
        except YastnError:
            continue
        sl = tuple(slice(*o[0][tuple(t)]) for o, t in zip(offs, combo))
        out[sl] = blk
    return out


def meta_dense(a, legs_native=None):
    """dense array in the meta (logical, non-native) shape: every meta-fused group of native legs becomes one axis whose
    index runs over the group's *existing* charge combinations in sorted order, row-major inside a combination."""
    nat = reassemble(a, legs_native)
    mlegs = a.get_legs()
    if all(not hasattr(l, 'mf') for l in mlegs):
        return nat
    own = list(a.get_legs(native=True)) if legs_native is None else list(legs_native)
    nsym = a.config.sym.NSYM
    pos = 0
    groups = []
    for l in mlegs:
        k = len(l.legs) if hasattr(l, 'mf') else 1
        groups.append((l, list(range(pos, pos + k))))
        pos += k
    arr = nat
    # process groups from the last to the first so that axis numbers of earlier groups stay valid
    for l, axes in reversed(groups):
        if len(axes) == 1:
            continue
        sub = [own[i] for i in axes]
        offs = [offsets(x)[0] for x in sub]
        dims = [offsets(x)[1] for x in sub]
        flat_idx = []
        for tt in l.t:
            chs = [tuple(tt[i * nsym:(i + 1) * nsym]) for i in range(len(sub))]
            ranges = [range(*o[c]) for o, c in zip(offs, chs)]
            for multi in itertools.product(*ranges):
                f = 0
                for m, d in zip(multi, dims):
                    f = f * d + m
                flat_idx.append(f)
        shp = arr.shape
        new_shape = shp[:axes[0]] + (int(np.prod([shp[i] for i in axes])),) + shp[axes[-1] + 1:]
        arr = arr.reshape(new_shape)
        arr = np.take(arr, flat_idx, axis=axes[0]) if flat_idx else arr[(slice(None),) * axes[0] + (slice(0, 0),)]
    return arr


def conj(x):
    if isinstance(x, np.ndarray) and x.dtype == object:
        out = np.empty(x.size, dtype=object)
        for i, e in enumerate(x.flat):
            out[i] = e.conjugate() if hasattr(e, 'conjugate') else e
        return out.reshape(x.shape)
    return np.conj(x)


def legs_equal(l1, l2):
    """observable equality of two legs (signature, charges, dims, fusion history)"""
    if hasattr(l1, 'mf') != hasattr(l2, 'mf'):
        return False
    if hasattr(l1, 'mf'):
        return l1.mf == l2.mf and l1.s == l2.s and l1.t == l2.t and l1.D == l2.D and \
            len(l1.legs) == len(l2.legs) and all(legs_equal(x, y) for x, y in zip(l1.legs, l2.legs))
    return l1.s == l2.s and tuple(l1.t) == tuple(l2.t) and tuple(l1.D) == tuple(l2.D) and l1.hf == l2.hf


def leg_sub(leg, other):
    """leg's sectors are a subset of other's with equal dims and signature."""
    d = dict(zip(other.t, other.D))
    return leg.s == other.s and all(t in d and d[t] == D for t, D in zip(leg.t, leg.D))
