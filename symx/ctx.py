"""
symx.ctx -- the two execution contexts a harness case runs under.

SymCtx   : inputs are solver variables, obligations are decided by z3 under the current path condition.
FloatCtx : inputs are concrete floats (random, or the rational values of a solver model = replay); the unmodified
           float backend is used and obligations are compared numerically.  Used for (a) replaying every
           counterexample before it is reported and (b) translator validation of harness + oracle.
"""
from __future__ import annotations
import random
from fractions import Fraction
import numpy as np
import z3
from . import core
from .core import SV, SC, SI, SB, zr, zc, Inconclusive, PathAbort


TRACE = bool(__import__('os').environ.get('SYMX_TRACE'))
USE_IDEAL = not __import__('os').environ.get('SYMX_NO_IDEAL')
SOM_BLOWUP = 10 ** 8


class Violation(BaseException):
    def __init__(self, cand):
        super().__init__(cand.get('label'))
        self.cand = cand


class Skip(BaseException):
    """case outside the documented domain (counted)."""


def _flat(X):
    if isinstance(X, np.ndarray):
        return list(X.ravel().tolist()) if X.dtype != object else list(X.ravel())
    if isinstance(X, (list, tuple)):
        out = []
        for x in X:
            out.extend(_flat(x))
        return out
    return [X]


def _shape(X):
    if isinstance(X, np.ndarray):
        return tuple(X.shape)
    if isinstance(X, (list, tuple)):
        return (len(X),) + (_shape(X[0]) if len(X) and isinstance(X[0], (list, tuple, np.ndarray)) else ())
    return ()


def _ename(exc):
    return exc.__name__ if isinstance(exc, type) else '|'.join(e.__name__ for e in exc)


class _Base:
    def check(self, cond, label, detail=''):
        """concrete (structural) requirement -- no solver involved."""
        self.stats.concrete_checks += 1
        if not cond:
            raise Violation(self._candidate('structure', label, str(detail)[:600]))

    def expect_raises(self, fn, exc, label):
        """fn() must raise exc (and nothing else)."""
        self.stats.concrete_checks += 1
        try:
            fn()
        except exc:
            return
        except (Violation, Inconclusive, PathAbort, Skip):
            raise
        except Exception as e:   # noqa
            raise Violation(self._candidate('structure', label, f'raised {type(e).__name__}: {e} instead of {_ename(exc)}'))
        raise Violation(self._candidate('structure', label, f'did not raise {_ename(exc)}'))

    def skip(self, why=''):
        raise Skip(why)


class SymCtx(_Base):
    mode = 'sym'

    def __init__(self, spec, stats, query_timeout_ms=60000):
        self.spec = spec
        self.stats = stats
        self.query_timeout_ms = query_timeout_ms
        self.samples = []
        self.reset()

    def reset(self):
        self.inputs = {}      # name -> list of z3 consts (reals; complex = 2 per element)
        self.kinds = {}
        self.nobl = 0

    # -- inputs
    def data(self, name, n, dtype='real', nonneg=False):
        assert name not in self.inputs, name
        if dtype == 'complex':
            arr = core.complex_array(name, n)
            self.inputs[name] = [c for x in arr for c in (x.re, x.im)]
        else:
            arr = core.real_array(name, n)
            self.inputs[name] = [x.e for x in arr]
            if nonneg:
                for x in arr:
                    core.ENG.assume(x.e >= 0)
        self.kinds[name] = dtype
        return arr

    def fill(self, t, name, dtype='real', nonneg=False):
        t._data = self.data(name, t.size, dtype, nonneg=nonneg)
        return t

    def scalar(self, name, dtype='real', lo=None, hi=None, lo_strict=False, hi_strict=False):
        x = self.data(name, 1, dtype)[0]
        if dtype == 'real':
            if lo is not None:
                core.ENG.assume(x.e > lo if lo_strict else x.e >= lo)
            if hi is not None:
                core.ENG.assume(x.e < hi if hi_strict else x.e <= hi)
        return x

    def integer(self, name, lo=None, hi=None, key=False, unbounded=False):
        """unbounded=True: lo/hi only guide the float-mode sampler; the solver variable ranges over all integers."""
        assert name not in self.inputs, name
        v = z3.Int(name)
        self.inputs[name] = [v]
        self.kinds[name] = 'int'
        if unbounded:
            return core.SIK(v) if key else SI(v)
        if lo is not None:
            core.ENG.assume(v >= lo)
        if hi is not None:
            core.ENG.assume(v <= hi)
        return core.SIK(v) if key else SI(v)

    def assume(self, c):
        core.ENG.assume(c)

    # -- obligations
    def _model_inputs(self, model):
        vals = {}
        for name, consts in self.inputs.items():
            vals[name] = [str(core.model_value(model, c)) for c in consts]
        return vals

    def _nice_model(self, negated_goal, model):
        """try to replace a counterexample by one whose input values are small dyadic rationals (exactly representable as
        floats, so that the float-backend replay follows the same path even at ties / equality boundaries)."""
        E = core.ENG
        consts = [c for name, cs in self.inputs.items() if self.kinds.get(name) != 'int' for c in cs]
        if not consts or len(consts) > 400:
            return model
        for denom, bound in ((4, 8), (64, 64)):
            s2 = z3.Solver()
            s2.set('timeout', 8000)
            s2.add(E.constraints)
            s2.add(negated_goal)
            for c in consts:
                s2.add(z3.IsInt(c * denom), c <= bound, c >= -bound)
            if s2.check() == z3.sat:
                return s2.model()
        return model

    def _candidate(self, kind, label, detail, model=None):
        if model is None:
            E = core.ENG
            if E is not None and E.solver.check() == z3.sat:
                model = E.solver.model()
        vals = self._model_inputs(model) if model is not None else None
        return {'kind': kind, 'label': label, 'detail': detail, 'inputs': vals, 'kinds': dict(self.kinds),
                'decisions': list(core.ENG.decisions[:core.ENG.pos]) if core.ENG else []}

    def prove(self, cond, label):
        """cond (SB / bool / z3 BoolRef) must hold for all values on this path."""
        E = core.ENG
        self.nobl += 1
        if isinstance(cond, SB):
            cond = cond.c
        if isinstance(cond, (bool, np.bool_)):
            return self.check(bool(cond), label)
        if E.in_prefix():
            return
        self.stats.obligations += 1
        r, model = E.decide(z3.Not(cond), self.query_timeout_ms)
        self._sample(label, r, 1)
        if r == 'sat':
            model = self._nice_model(z3.Not(cond), model)
            raise Violation(self._candidate('obligation', label, f'not({z3.simplify(cond).sexpr()[:300]}) is satisfiable', model))
        if r != 'unsat':
            raise Inconclusive(f'solver returned {r} on obligation {label}')

    def eq(self, X, Y, label):
        """element-wise equality of two arrays / scalars for all values on this path."""
        E = core.ENG
        self.nobl += 1
        sx, sy = _shape(X), _shape(Y)
        fx, fy = _flat(X), _flat(Y)
        if len(fx) != len(fy) or (sx != sy and (sx == () or sy == ()) is False and int(np.prod(sx)) != int(np.prod(sy))):
            return self.check(False, label, f'shape mismatch {sx} vs {sy}')
        if sx != sy and len(fx) > 1:
            return self.check(False, label, f'shape mismatch {sx} vs {sy}')
        if E.in_prefix():
            return
        diffs = []
        idx = []
        for k, (x, y) in enumerate(zip(fx, fy)):
            if x is None or y is None:
                return self.check(False, label, f'uninitialised element (None) at flat index {k}')
            xr, xi = zc(x)
            yr, yi = zc(y)
            if not xr.eq(yr):
                diffs.append((xr, yr)); idx.append(k)
            if not xi.eq(yi):
                diffs.append((xi, yi)); idx.append(k)
        self.stats.obligations += 1
        if not diffs:
            self.stats.concrete_checks += 1
            self._sample(label, 'identical-terms', len(fx))
            return
        # polynomial identities: z3's rewriter in sum-of-monomials mode (blow-up limit lifted) rewrites lhs - rhs to 0 for most
        # obligations; what it cannot close (assumption-dependent goals, genuine differences) is left to the SMT solver under the
        # path condition and the assumptions, with the simplified difference as the goal
        keep, kidx, closed, keep_lr = [], [], 0, []
        t0 = __import__('time').time()
        for k, (l, r) in zip(idx, diffs):
            try:
                z = z3.simplify(l - r, som=True, som_blowup=SOM_BLOWUP)
            except z3.Z3Exception:
                keep.append(l != r); kidx.append(k); keep_lr.append(l - r); continue
            if z3.is_rational_value(z) and z.numerator_as_long() == 0:
                closed += 1
                continue
            keep.append(z != 0); kidx.append(k); keep_lr.append(l - r)
        # goals that are polynomial consequences of the equality assumptions (LAPACK contracts): ideal-membership certificate found by
        # reduction, checked by z3's rewriter (symx.ideal)
        if keep and USE_IDEAL:
            from . import ideal
            try:
                verdict = ideal.prove_zero(E, keep_lr, SOM_BLOWUP)
                if verdict == 'infeasible':
                    # the LAPACK contract contradicts the path condition (branches are pruned with the linear part of the assumptions only)
                    raise core.PathAbort('infeasible path: a contract equation contradicts the path condition')
                if verdict is True:
                    self.stats.solver_s += __import__('time').time() - t0
                    self.stats.queries += 1
                    self.stats.unsat += 1
                    self._sample(label, 'unsat: lhs - rhs is a polynomial combination of the equality assumptions (certificate checked by z3 simplify)', len(fx))
                    return
            except RecursionError:
                pass
        self.stats.solver_s += __import__('time').time() - t0
        diffs, idx = keep, kidx
        if not diffs:
            self.stats.queries += 1
            self.stats.unsat += 1
            self._sample(label, 'unsat: every lhs - rhs rewrites to 0 (z3 simplify, sum-of-monomials normal form)', len(fx))
            return
        goal = z3.Or(diffs) if len(diffs) > 1 else diffs[0]
        r, model = E.decide(goal, self.query_timeout_ms)
        self._sample(label, r, len(fx))
        if r == 'sat':
            model = self._nice_model(goal, model)
            bad = None
            for k, d in zip(idx, diffs):
                if z3.is_true(model.eval(d, model_completion=True)):
                    bad = k
                    break
            raise Violation(self._candidate('obligation', label, f'element {bad} of {len(fx)} (shape {sx}) differs', model))
        if r != 'unsat':
            raise Inconclusive(f'solver returned {r} on obligation {label}')

    def is_zero(self, X, label):
        fx = _flat(X)
        self.eq(fx, [0] * len(fx), label)

    def _sample(self, label, verdict, n):
        if TRACE:
            import sys, time
            print(f'[trace {time.time() % 1000:7.2f}] {str(verdict)[:20]:20s} n={n} {label}', file=sys.stderr, flush=True)
        if len(self.samples) < 6:
            self.samples.append({'obligation': label, 'elements': n, 'verdict': verdict,
                                 'path_decisions': len(core.ENG.decisions[:core.ENG.pos])})


class FloatCtx(_Base):
    mode = 'float'

    def __init__(self, spec, stats, values=None, seed=0, rtol=1e-8, atol=1e-8):
        self.spec = spec
        self.stats = stats
        self.values = values
        self.rng = random.Random(seed)
        self.rtol, self.atol = rtol, atol
        self.samples = []
        self.reset()

    def reset(self):
        self.inputs = {}
        self.kinds = {}

    def _vals(self, name, n, lo=None, hi=None, integer=False):
        if self.values is not None and name in self.values:
            v = [float(Fraction(s)) for s in self.values[name]]
            if len(v) != n:
                raise Inconclusive(f'replay values for {name}: {len(v)} != {n}')
            return v
        if self.values is not None:
            # symbol not constrained by the model (created on a path position the model never reached)
            pass
        a, b = (-2.0 if lo is None else lo), (2.0 if hi is None else hi)
        if integer:
            return [float(self.rng.randint(int(a), int(b))) for _ in range(n)]
        return [a + (b - a) * (2 * self.rng.randint(0, 31) + 1) / 64.0 for _ in range(n)]      # never exactly zero for symmetric ranges

    def data(self, name, n, dtype='real', nonneg=False):
        if dtype == 'complex':
            v = self._vals(name, 2 * n)
            arr = np.array([complex(v[2 * i], v[2 * i + 1]) for i in range(n)], dtype=np.complex128)
        else:
            v = self._vals(name, n, lo=0.0 if nonneg else None)
            arr = np.array(v, dtype=np.float64)
        self.inputs[name] = arr
        self.kinds[name] = dtype
        return arr

    def fill(self, t, name, dtype='real', nonneg=False):
        t._data = self.data(name, t.size, dtype, nonneg=nonneg)
        return t

    def scalar(self, name, dtype='real', lo=None, hi=None, lo_strict=False, hi_strict=False):
        if dtype == 'complex':
            v = self._vals(name, 2)
            return complex(v[0], v[1])
        return float(self._vals(name, 1, lo=lo, hi=hi)[0])

    def integer(self, name, lo=None, hi=None, key=False, unbounded=False):
        return int(self._vals(name, 1, lo=lo if lo is not None else -3, hi=hi if hi is not None else 3, integer=True)[0])

    def assume(self, c):
        if not bool(c):
            raise PathAbort('assumption false for these concrete values')

    def _candidate(self, kind, label, detail, model=None):
        return {'kind': kind, 'label': label, 'detail': detail, 'inputs': None, 'kinds': dict(self.kinds)}

    def prove(self, cond, label):
        self.stats.obligations += 1
        if not bool(cond):
            raise Violation(self._candidate('obligation', label, 'false for these concrete values'))

    def eq(self, X, Y, label):
        self.stats.obligations += 1
        sx, sy = _shape(X), _shape(Y)
        fx, fy = _flat(X), _flat(Y)
        if len(fx) != len(fy) or (sx != sy and len(fx) > 1):
            return self.check(False, label, f'shape mismatch {sx} vs {sy}')
        if any(x is None for x in fx) or any(y is None for y in fy):
            return self.check(False, label, 'uninitialised element (None)')
        a = np.array(fx, dtype=np.complex128)
        b = np.array(fy, dtype=np.complex128)
        if not np.allclose(a, b, rtol=self.rtol, atol=self.atol):
            k = int(np.argmax(np.abs(a - b)))
            raise Violation(self._candidate('obligation', label, f'element {k} of {len(fx)}: {a[k]} != {b[k]}'))

    def is_zero(self, X, label):
        fx = _flat(X)
        self.eq(fx, [0] * len(fx), label)
