"""
symx.ideal -- ideal-membership certificates for polynomial obligations that follow from EQUALITY assumptions (LAPACK contracts
U S V = A, Q R = A, Q^T Q = 1, nu^2 = sum x^2) by polynomial consequence.

z3's non-linear solver frequently answers `unknown` on such goals although they are simple algebraic consequences (a linear
combination of the contract polynomials with polynomial multipliers).  Here the goal polynomial G = lhs - rhs is REDUCED by the
equality assumptions of the current path, used as rewrite rules  LM(P) -> LM(P) - P/lc  with the leading monomial taken in the
lexicographic order in which more recently created symbols are larger (decomposition outputs are created after their inputs, so the
order eliminates the outputs of later decompositions first).  Laurent monomials (negative exponents) are allowed for symbols that the
path condition makes non-zero (divisions executed by the code: x / nu), so  (x / nu) * nu  normalises to x.

If the remainder is 0, then  G = sum_k q_k P_k  with the recorded quotients q_k: a certificate.  The certificate is then CHECKED by
z3: with the denominators cleared, the rewriter (sum-of-monomials normal form) must rewrite  D*G - sum_k (D q_k) P_k  to 0.  Only
then the obligation counts as discharged (sound: every P_k == 0 is an assumption on the path, hence G == 0).  Anything else falls
through to the SMT solver; the procedure never produces a counterexample.
"""
from __future__ import annotations
from fractions import Fraction
import z3


class Unsupported(Exception):
    pass


class Poly:
    """sparse Laurent polynomial: {monomial: Fraction}, monomial = tuple of (var_index, exponent) sorted by var_index DESCENDING"""
    __slots__ = ('t',)

    def __init__(self, t=None):
        self.t = t if t is not None else {}

    @staticmethod
    def const(c):
        c = Fraction(c)
        return Poly({(): c} if c != 0 else {})

    @staticmethod
    def var(i):
        return Poly({((i, 1),): Fraction(1)})

    def __add__(self, o):
        t = dict(self.t)
        for m, c in o.t.items():
            v = t.get(m, 0) + c
            if v == 0:
                t.pop(m, None)
            else:
                t[m] = v
        return Poly(t)

    def __neg__(self):
        return Poly({m: -c for m, c in self.t.items()})

    def __sub__(self, o):
        return self + (-o)

    def scale(self, c, mono=()):
        if c == 0:
            return Poly()
        if not mono:
            return Poly({m: v * c for m, v in self.t.items()})
        return Poly({mono_mul(m, mono): v * c for m, v in self.t.items()})

    def __mul__(self, o):
        if len(self.t) > len(o.t):
            self, o = o, self
        t = {}
        for m1, c1 in self.t.items():
            for m2, c2 in o.t.items():
                m = mono_mul(m1, m2)
                v = t.get(m, 0) + c1 * c2
                if v == 0:
                    t.pop(m, None)
                else:
                    t[m] = v
        return Poly(t)

    def is_zero(self):
        return not self.t

    def inverse_monomial(self):
        """1 / self for a single-term polynomial"""
        if len(self.t) != 1:
            raise Unsupported('division by a sum')
        (m, c), = self.t.items()
        return Poly({tuple((i, -e) for i, e in m): 1 / c})


def mono_mul(a, b):
    if not a:
        return b
    if not b:
        return a
    d = dict(a)
    for i, e in b:
        v = d.get(i, 0) + e
        if v == 0:
            d.pop(i, None)
        else:
            d[i] = v
    return tuple(sorted(d.items(), key=lambda x: -x[0]))


def mono_div(g, lm):
    """g / lm if lm divides g (exponent-wise on the variables of lm, which are all positive) else None"""
    d = dict(g)
    for i, e in lm:
        if d.get(i, 0) < e:
            return None
    for i, e in lm:
        v = d[i] - e
        if v == 0:
            del d[i]
        else:
            d[i] = v
    return tuple(sorted(d.items(), key=lambda x: -x[0]))


def mono_key(m):
    """lexicographic order, newer (larger index) variables first; only positive exponents count for the leading term"""
    return tuple((i, e) for i, e in m)


class Translator:
    def __init__(self, inputs_first=False):
        self.inputs_first = inputs_first
        self.index = {}        # z3 const id -> var index (creation order = z3 ast id order of the constant)
        self.consts = []
        self.by_rank = {}
        self.cache = {}

    def var_index(self, c):
        """rank of a symbol in the elimination order: fresh symbols (named <prefix>!<counter> by the engine) by their creation counter,
        harness input symbols below all of them (z3 ast ids are recycled in long-running processes and cannot be used)"""
        i = c.get_id()
        if i in self.index:
            return self.index[i]
        name = c.decl().name()
        if '!' in name and name.rsplit('!', 1)[1].isdigit():
            r = int(name.rsplit('!', 1)[1]) + 1
            while r in self.by_rank:          # (never expected: counters are unique per engine)
                r += 1000003
        elif self.inputs_first:
            r = 10 ** 9 + len(self.consts)       # second order: harness inputs are eliminated in favour of the decomposition outputs
        else:
            r = -(len(self.consts) + 1)
        self.index[i] = r
        self.by_rank[r] = c
        self.consts.append(c)
        return r

    def poly(self, e):
        k = e.get_id()
        if k in self.cache:
            return self.cache[k]
        r = self._poly(e)
        self.cache[k] = r
        return r

    def _poly(self, e):
        if z3.is_rational_value(e):
            return Poly.const(Fraction(e.numerator_as_long(), e.denominator_as_long()))
        if z3.is_int_value(e):
            return Poly.const(e.as_long())
        if z3.is_const(e) and e.decl().kind() == z3.Z3_OP_UNINTERPRETED:
            return Poly.var(self.var_index(e))
        k = e.decl().kind()
        ch = e.children()
        if k == z3.Z3_OP_ADD:
            r = Poly()
            for c in ch:
                r = r + self.poly(c)
            return r
        if k == z3.Z3_OP_SUB:
            r = self.poly(ch[0])
            for c in ch[1:]:
                r = r - self.poly(c)
            return r
        if k == z3.Z3_OP_UMINUS:
            return -self.poly(ch[0])
        if k == z3.Z3_OP_MUL:
            r = Poly.const(1)
            for c in ch:
                r = r * self.poly(c)
                if len(r.t) > 200000:
                    raise Unsupported('too large')
            return r
        if k == z3.Z3_OP_DIV:
            return self.poly(ch[0]) * self.poly(ch[1]).inverse_monomial()
        if k == z3.Z3_OP_POWER:
            if z3.is_rational_value(ch[1]) and ch[1].denominator_as_long() == 1:
                n = ch[1].numerator_as_long()
                b = self.poly(ch[0])
                if n < 0:
                    b, n = b.inverse_monomial(), -n
                r = Poly.const(1)
                for _ in range(n):
                    r = r * b
                return r
            raise Unsupported('power')
        if k == z3.Z3_OP_TO_REAL:
            return self.poly(ch[0])
        raise Unsupported(f'operator {e.decl().name()}')


def _equalities(constraints):
    out = []
    stack = list(constraints)
    while stack:
        c = stack.pop()
        if z3.is_and(c):
            stack.extend(c.children())
        elif z3.is_eq(c):
            a, b = c.children()
            if a.sort().kind() == z3.Z3_REAL_SORT:
                out.append((a, b))
    return out


def _clear(p):
    """multiply by the monomial that removes negative exponents (the symbols concerned are non-zero on the path: they were divided by)"""
    sh = {}
    for m in p.t:
        for i, e in m:
            if e < 0:
                sh[i] = max(sh.get(i, 0), -e)
    if not sh:
        return p
    return p.scale(Fraction(1), tuple(sorted(sh.items(), key=lambda x: -x[0])))


class Reducer:
    """rewrite system built from the equality assumptions of one path (rebuilt lazily when assumptions were added)"""
    def __init__(self, inputs_first=False):
        self.tr = Translator(inputs_first)
        self.nseen = 0
        self.rules = []          # (lead monomial, lead coeff, poly, z3 term a - b)
        self.zeros = set()
        self.by_var = {}

    def update(self, constraints):
        if len(constraints) == self.nseen:
            return
        for a, b in _equalities(constraints[self.nseen:]):
            try:
                p = self.tr.poly(a) - self.tr.poly(b)
            except Unsupported:
                continue
            if p.is_zero():
                continue
            p = _clear(p)
            # leading monomial: largest in the order among monomials without negative exponents
            cands = [m for m in p.t if m and all(e > 0 for _, e in m)]
            if not cands:
                continue
            lm = max(cands, key=mono_key)
            idx = len(self.rules)
            self.rules.append((lm, p.t[lm], p, a - b))
            self.by_var.setdefault(lm[0][0], []).append(idx)
        self.nseen = len(constraints)

    def reduce(self, g, max_steps=200000, skip=None):
        """returns (remainder Poly, quotients {rule index: Poly})"""
        quot = {}
        rem = Poly()
        work = dict(g.t)
        steps = 0
        while work:
            m = max(work, key=mono_key)
            c = work.pop(m)
            done = False
            for i, _ in m:
                for ridx in self.by_var.get(i, ()):
                    if ridx == skip:
                        continue
                    lm, lc, p, _z = self.rules[ridx]
                    q = mono_div(m, lm)
                    if q is None:
                        continue
                    f = c / lc
                    # work -= f * q * p   (the leading term cancels m)
                    for pm, pc in p.t.items():
                        if pm == lm:
                            continue
                        mm = mono_mul(pm, q)
                        v = work.get(mm, 0) - f * pc
                        if v == 0:
                            work.pop(mm, None)
                        else:
                            work[mm] = v
                    qq = quot.setdefault(ridx, Poly())
                    qq.t[q] = qq.t.get(q, 0) + f
                    done = True
                    break
                if done:
                    break
            if not done:
                rem.t[m] = c
            steps += 1
            if steps > max_steps:
                raise Unsupported('reduction budget')
        for qq in quot.values():
            for k in [k for k, v in qq.t.items() if v == 0]:
                del qq.t[k]
        return rem, quot

    # -- certificate as z3 terms
    def z3_of(self, p, shift):
        """z3 term of  (prod shift) * p ; shift: {var id: k} makes every exponent non-negative"""
        by_id = self.tr.by_rank
        terms = []
        for m, c in p.t.items():
            d = dict(m)
            for i, k in shift.items():
                d[i] = d.get(i, 0) + k
            t = z3.RealVal(str(c))
            for i, e in d.items():
                if e < 0:
                    raise Unsupported('negative exponent after shift')
                for _ in range(e):
                    t = t * by_id[i]
            terms.append(t)
        if not terms:
            return z3.RealVal(0)
        return z3.Sum(terms) if len(terms) > 1 else terms[0]


def _add_forced_zeros(engine, red, rem):
    by_id = red.tr.by_rank
    tested = getattr(red, 'tested', None)
    if tested is None:
        tested = red.tested = {}
    added = False
    cand = {i for m in rem.t for i, _ in m}
    for lm, lc, p, zt in red.rules:          # symbols of the assumptions that share a monomial with the remainder
        pos = [pm for pm in p.t if pm and all(e > 0 for _, e in pm)]
        if any(mono_div(m, pm) is not None for m in rem.t for pm in pos):
            cand |= {i for m in p.t for i, _ in m}
    seen = set()
    stack = [a for a in engine.fsolver.assertions() if not z3.is_eq(a) and not z3.is_and(a)]
    while stack and len(seen) < 5000:
        x = stack.pop()
        k = x.get_id()
        if k in seen:
            continue
        seen.add(k)
        if z3.is_const(x) and x.decl().kind() == z3.Z3_OP_UNINTERPRETED and x.sort().kind() == z3.Z3_REAL_SORT:
            cand.add(red.tr.var_index(x))
        else:
            stack.extend(x.children())
    for i in sorted(cand)[:200]:
        key = (i, len(engine.constraints))
        if key in tested:
            continue
        v = by_id[i]
        engine.fsolver.push()
        engine.fsolver.add(v != 0)
        r = engine.fsolver.check()
        engine.fsolver.pop()
        tested[key] = r
        if r == z3.unsat:
            lm = ((i, 1),)
            idx = len(red.rules)
            red.rules.append((lm, Fraction(1), Poly({lm: Fraction(1)}), v))
            red.by_var.setdefault(i, []).append(idx)
            red.zeros.add(i)
            added = True
    if added:
        # inter-reduce: drop the vanishing monomials from the other rules and re-select their leading monomials
        red.by_var = {}
        for idx, (lm, lc, p, zt) in enumerate(red.rules):
            if len(p.t) == 1 and lm[0][0] in red.zeros and lm == ((lm[0][0], 1),):
                red.by_var.setdefault(lm[0][0], []).append(idx)
                continue
            p2 = Poly({m: c for m, c in p.t.items() if not any(i in red.zeros for i, _ in m)})
            cands = [m for m in p2.t if m and all(e > 0 for _, e in m)]
            if not cands:
                red.rules[idx] = (lm, lc, p, zt)      # keeps its slot (never matches: not indexed)
                continue
            lm2 = max(cands, key=mono_key)
            # the rule polynomial used in the certificate stays the ORIGINAL assumption p; the dropped monomials are multiples of the zero
            # symbols and are re-introduced by the reduction itself (they reduce to 0 through the v -> 0 rules)
            red.rules[idx] = (lm2, p.t[lm2], p, zt)
            red.by_var.setdefault(lm2[0][0], []).append(idx)
    return added


def _infeasible(engine, red):
    """an equality assumption whose polynomial, after dropping the monomials that contain symbols forced to zero by the path condition,
    is a non-zero constant: the path is infeasible.  Confirmed by z3 on the small system {linear path condition, that assumption}."""
    if not red.zeros:
        return False
    for lm, lc, p, zt in red.rules:
        if len(p.t) == 1 and lm == ((lm[0][0], 1),) and lm[0][0] in red.zeros:
            continue
        p2 = {m: c for m, c in p.t.items() if not any(i in red.zeros for i, _ in m)}
        if len(p2) == 1 and () in p2:
            s = z3.Solver()
            s.set('timeout', 10000)
            s.add(engine.fsolver.assertions())
            s.add(zt == 0)
            if s.check() == z3.unsat:
                return True
    return False


def _inconsistent(red, blowup=10 ** 8, budget=60):
    """an equality assumption that reduces, modulo the other ones, to a non-zero constant c: then c is in the ideal, the assumptions have
    no common solution and the path is infeasible.  The combination is checked by z3's rewriter (certify)."""
    n = 0
    for idx, (lm, lc, p, zt) in enumerate(red.rules):
        if len(p.t) > 400:
            continue
        n += 1
        if n > budget:
            break
        try:
            rem, quot = red.reduce(p, max_steps=20000, skip=idx)
        except Unsupported:
            continue
        if len(rem.t) == 1 and () in rem.t and certify(red, p, rem, quot, blowup):
            return True
    return False


def _trace(red, rem):
    import os, sys
    if os.environ.get('SYMX_TRACE'):
        by_id = {r: str(c) for r, c in red.tr.by_rank.items()}
        items = list(rem.t.items())[:6]
        print('[ideal] remainder', len(rem.t), 'terms:', [(' '.join(f'{by_id[i]}^{e}' for i, e in m), str(c)) for m, c in items], file=sys.stderr)


def certify(red, gp, rem, quot, blowup=10 ** 8):
    """z3's rewriter checks  D*(G - rem) - sum_k (D/s_k q_k) (s_k P_k) == 0  with denominators cleared (D, s_k: monomials)"""
    def neg(p):
        sh = {}
        for m in p.t:
            for i, e in m:
                if e < 0:
                    sh[i] = max(sh.get(i, 0), -e)
        return sh
    g2 = gp - rem
    D = neg(g2)
    parts = []
    for ridx, q in quot.items():
        sk, tk = neg(red.rules[ridx][2]), neg(q)
        parts.append((ridx, q, sk))
        for i in set(sk) | set(tk):
            D[i] = max(D.get(i, 0), sk.get(i, 0) + tk.get(i, 0))
    try:
        # G is re-expressed from its polynomial (the original term contains divisions the rewriter does not cancel); the translation
        # term -> polynomial is the step shared with the reduction, the combination is what z3 checks
        lhs = red.z3_of(g2, D)
        rhs = z3.RealVal(0)
        for ridx, q, sk in parts:
            rhs = rhs + red.z3_of(q, {i: D.get(i, 0) - sk.get(i, 0) for i in D}) * red.z3_of(red.rules[ridx][2], sk)
        z = z3.simplify(lhs - rhs, som=True, som_blowup=blowup)
    except (Unsupported, z3.Z3Exception):
        return False
    return bool(z3.is_rational_value(z) and z.numerator_as_long() == 0)


def prove_zero(engine, goal_terms, blowup=10 ** 8):
    """goal_terms: list of z3 Real terms that must be 0 on this path.  Returns the number proved (all or nothing -> bool)."""
    # two elimination orders: (1) outputs of later decompositions first (goal expressed in outputs, to be reduced to inputs: U S V -> A),
    # (2) harness inputs first (goal expressed in inputs, to be reduced to outputs and closed by the orthogonality relations: A -> Q R)
    r = _prove_with(engine, '_ideal', False, goal_terms, blowup)
    if r is False:
        r = _prove_with(engine, '_ideal_in', True, goal_terms, blowup)
    return r


def _prove_with(engine, attr, inputs_first, goal_terms, blowup):
    red = getattr(engine, attr, None)
    if red is None:
        red = Reducer(inputs_first)
        setattr(engine, attr, red)
    red.update(engine.constraints)
    if not red.rules:
        return False
    for g in goal_terms:
        try:
            gp = _clear(red.tr.poly(g))      # G x (monomial of non-zero symbols): same zero set on the path
            rem, quot = red.reduce(gp)
        except Unsupported:
            return False
        if not rem.is_zero():
            # symbols forced to zero by the (linear) path condition, e.g. a singular value with S >= 0 (contract) on the branch not(S > 0):
            # decided by the feasibility solver, then used as additional rules v -> 0
            added = _add_forced_zeros(engine, red, rem)
            if _infeasible(engine, red):
                return 'infeasible'
            if not added:
                if len(rem.t) == 1 and () in rem.t and _inconsistent(red, blowup):
                    return 'infeasible'
                _trace(red, rem)
                return False
            try:
                rem, quot = red.reduce(gp)
            except Unsupported:
                return False
            if not rem.is_zero():
                if len(rem.t) == 1 and () in rem.t and _inconsistent(red, blowup):
                    return 'infeasible'
                _trace(red, rem)
                return False
        if not certify(red, gp, rem, quot, blowup):
            return False
    return True
