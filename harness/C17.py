"""
C17 -- serialisation round-trips every object exactly.

to_dict/from_dict (levels 0..2, with and without an overriding config, resolve_ops), the legacy save_to_dict/load_from_dict,
split_data_and_meta/combine_data_and_meta and the generic yastn.from_dict dispatch are executed on tensors / MPS / MPO / Peps whose
elements are solver variables; the restored object must be observationally identical (legs incl. fusion history, charge, pending
permutation semantics checked through a follow-up contraction, dense values).  vec(.) against a supplied meta is shown linear and
norm preserving as polynomial identities; incompatible config / meta must raise YastnError.
"""
from __future__ import annotations
import itertools
import warnings
import numpy as np
from symx import catalogue as cat
from symx import dense
from symx.dense import reassemble
from symx.wellformed import wellformed
from .common import rng_of, describe
from .C01 import hash_seed, _partner_spec

PROPERTY = 'C17'
FUNCTIONS = ['Tensor.to_dict/from_dict (levels 0,1,2; config override; resolve_ops; meta zero-fill)', 'save_to_dict/load_from_dict (legacy)',
             'split_data_and_meta/combine_data_and_meta', 'yastn.from_dict dispatch', 'MpsMpoOBC/MpoPBC to_dict/from_dict/save_to_dict',
             'Lattice/Peps to_dict/from_dict on SquareLattice/Checkerboard/RectangularUnitcell/Triangular', 'make_config(**dict)']
ASSUMPTIONS = ['exact arithmetic', 'the numpy.save/load and HDF5 channels cannot carry symbolic elements: not solver-decidable, not claimed']
OUTSIDE = ['numpy.save/numpy.load and HDF5 legs of the statement (C-level I/O)', 'environment objects (EnvCTM, EnvBP, EnvBoundaryMPS): their construction needs iterative LAPACK chains',
           'torch backend']
BOUNDS = {'quick': {'tensor kinds': ['plain', 'diag', 'hard-fused', 'meta-fused', 'nested-fused', 'lazy', 'empty', 'rank0'], 'levels': [0, 1, 2], 'dtype': ['real', 'complex'],
                    'mps': 'N<=3, with/without central block, Mps/Mpo/MpoPBC', 'peps': '4 lattice types, <= 2x2'},
          'thorough': {'as quick': True}}
OPTS = {'quick': {'max_paths': 50}, 'thorough': {'max_paths': 50}}
FLOAT_XVAL = {'quick': 1.0, 'thorough': 1.0}     # dtype tags are observable on the float backend only
SYMS = list(cat.SYMS)
TKINDS = ['plain', 'diag', 'hard', 'meta', 'nested', 'lazy', 'empty', 'rank0', 'lazy_fused']


def cases(tier, seed):
    out = []
    reps = 2 if tier == 'quick' else 600
    fac = {'sym': SYMS, 'tkind': TKINDS, 'level': [0, 1, 2], 'dtype': ['real', 'complex'], 'channel': ['to_dict', 'to_dict_config', 'resolve_ops', 'legacy', 'split_combine', 'generic']}
    for rep in range(reps):
        for i, row in enumerate(cat.covering(fac, seed=seed * 11 + rep, strength=2)):
            c = dict(row)
            c.update(kind='tensor', tier=tier, id=f'tensor-{rep}-{i}', seed=hash_seed(seed, 'C17', 'tensor', rep, i))
            out.append(c)
        for i, row in enumerate(cat.covering({'sym': SYMS, 'tkind': ['plain', 'hard', 'lazy', 'diag'], 'dtype': ['real', 'complex'], 'level': [0, 1, 2]}, seed=seed * 5 + rep, strength=2)):
            c = dict(row)
            c.update(kind='vec', tier=tier, id=f'vec-{rep}-{i}', seed=hash_seed(seed, 'C17', 'vec', rep, i))
            out.append(c)
        for i, row in enumerate(cat.covering({'sym': SYMS, 'variant': ['sym', 'fermionic', 'meta-extra-block', 'meta-signature', 'meta-rank', 'legacy-noconfig', 'dict_ver', 'meta-shifted-charges', 'meta-other-n'], 'level': [0, 1, 2]},
                                             seed=seed * 3 + rep, strength=2)):
            c = dict(row)
            c.update(kind='reject', tier=tier, id=f'reject-{rep}-{i}', seed=hash_seed(seed, 'C17', 'reject', rep, i))
            out.append(c)
        for i, row in enumerate(cat.covering({'sym': ['dense', 'Z2', 'U1', 'Z3'], 'obj': ['mps', 'mpo', 'mpo_pbc'], 'N': [1, 2, 3], 'pC': [False, True], 'level': [0, 1, 2],
                                              'channel': ['to_dict', 'generic', 'legacy', 'config', 'split_combine']}, seed=seed * 19 + rep, strength=2)):
            c = dict(row)
            c.update(kind='mps', tier=tier, id=f'mps-{rep}-{i}', seed=hash_seed(seed, 'C17', 'mps', rep, i))
            out.append(c)
        for i, row in enumerate(cat.covering({'sym': ['dense', 'Z2', 'U1'], 'lattice': ['square_obc', 'square_inf', 'cylinder', 'checkerboard', 'ruc', 'triangular'],
                                              'level': [0, 1, 2], 'cls': ['Peps', 'Lattice']}, seed=seed * 23 + rep, strength=2)):
            c = dict(row)
            c.update(kind='peps', tier=tier, id=f'peps-{rep}-{i}', seed=hash_seed(seed, 'C17', 'peps', rep, i))
            out.append(c)
    return out


def run(ctx, spec):
    return globals()['k_' + spec['kind']](ctx, spec)


def _make_tensor(ctx, rng, spec, cfg, name='a', tkind=None):
    import yastn
    symn = spec['sym']
    tk = tkind or spec['tkind']
    dt = spec.get('dtype', 'real')
    if tk == 'diag':
        ts = cat.rand_diag_spec(rng, symn, dims=(1, 2), dtype=dt, s=rng.choice([(1, -1), (-1, 1)]))
        return cat.build(ctx, ts, name, config=cfg)
    if tk == 'rank0':
        ts = cat.rand_tensor_spec(rng, symn, 0, dtype=dt)
        return cat.build(ctx, ts, name, config=cfg)
    if tk == 'empty':
        ts = cat.rand_tensor_spec(rng, symn, rng.choice([1, 2, 3]), drop='empty', dtype=dt)
        if ts is None:
            ctx.skip('none')
        return cat.build(ctx, ts, name, config=cfg)
    rank = rng.choice([2, 3, 4]) if tk in ('plain', 'lazy') else rng.choice([3, 4])
    ts = cat.rand_tensor_spec(rng, symn, rank, dims=(1, 2), nsect=(1, 2), max_size=60, dtype=dt, drop=rng.choice(['none', 'some']))
    if ts is None:
        ctx.skip('none')
    a = cat.build(ctx, ts, name, config=cfg)
    if tk in ('lazy', 'lazy_fused'):
        p = list(range(rank)); rng.shuffle(p)
        a = a.transpose(tuple(p))
    if tk == 'hard':
        a = a.fuse_legs(axes=((1, 0),) + tuple(range(2, rank)), mode='hard')
    elif tk == 'meta':
        a = a.fuse_legs(axes=(0, tuple(range(1, rank))), mode='meta')
    elif tk == 'nested':
        a = a.fuse_legs(axes=((0, 1),) + tuple(range(2, rank)), mode='hard').fuse_legs(axes=((1, 0),) + tuple(range(2, rank - 1)), mode=rng.choice(['hard', 'meta']))
    elif tk == 'lazy_fused':
        a = a.fuse_legs(axes=((0, 1),) + tuple(range(2, rank)), mode='meta').transpose(tuple(range(1, rank - 1)) + (0,))
    return a


def _observably_equal(ctx, r, a, label):
    """legs incl. fusion history, charge, lazy-permutation semantics, dtype tag, dense values"""
    import yastn
    ctx.check(type(r) is type(a), f'{label}:type')
    ctx.check(r.n == a.n and r.isdiag == a.isdiag and r.ndim == a.ndim and r.ndim_n == a.ndim_n, f'{label}:charge/diag/rank', (r.n, a.n))
    la, lr = a.get_legs(), r.get_legs()
    ctx.check(len(la) == len(lr) and all(dense.legs_equal(x, y) for x, y in zip(la, lr)), f'{label}:legs+fusion-history', [(x, y) for x, y in zip(la, lr)][:2])
    ctx.check(r.config.sym.SYM_ID == a.config.sym.SYM_ID and r.config.fermionic == a.config.fermionic, f'{label}:config')
    ctx.check(r.get_signature() == a.get_signature() and r.get_signature(native=True) == a.get_signature(native=True), f'{label}:signature')
    wellformed(ctx, r, label, expect_n=a.n, check_dense_zero=False)
    if ctx.mode == 'float':     # dtype tags of symbolic (object) arrays are emulated: the concrete dtype is observable on the float backend only
        ctx.check(r.yastn_dtype == a.yastn_dtype or a.size == 0, f'{label}:dtype-tag', (r.yastn_dtype, a.yastn_dtype))
    nat = list(a.get_legs(native=True)) if a.ndim_n else None
    ctx.eq(reassemble(r, nat), reassemble(a, nat), f'{label}:dense-values')
    # pending permutation semantics: a follow-up operation sees the same tensor
    if a.ndim_n >= 1 and not a.isdiag and a.size:
        ctx.eq([yastn.vdot(r, a)], [yastn.vdot(a, a)], f'{label}:follow-up-contraction')
        ctx.eq(reassemble(r + a, nat), reassemble(a + a, nat), f'{label}:follow-up-addition')


def k_tensor(ctx, spec):
    import yastn
    rng = rng_of(spec)
    cfg = cat.make_config(spec['sym'], fermionic=rng.choice(cat.FERMIONIC_LEVELS[spec['sym']]), default_dtype=rng.choice(['float64', 'complex128']))
    a = _make_tensor(ctx, rng, spec, cfg)
    level, ch = spec['level'], spec['channel']
    if ch == 'to_dict':
        d = a.to_dict(level=level)
        r = yastn.Tensor.from_dict(d)
    elif ch == 'to_dict_config':
        d = a.to_dict(level=level)
        r = yastn.Tensor.from_dict(d, config=cfg)
    elif ch == 'resolve_ops':
        d = a.to_dict(level=level, resolve_ops=True)
        ctx.check(tuple(d['trans']) == tuple(range(a.ndim_n)), 'resolve_ops:no-pending-permutation-stored', d['trans'])
        r = yastn.from_dict(d)
    elif ch == 'legacy':
        with warnings.catch_warnings():
            warnings.simplefilter('ignore')
            d = a.save_to_dict()
            r = yastn.load_from_dict(config=cfg, d=d)
    elif ch == 'split_combine':
        d = a.to_dict(level=level)
        data, meta = yastn.split_data_and_meta(d, squeeze=rng.random() < 0.5)
        ctx.check('data' in meta and not hasattr(meta['data'], 'shape'), 'split:meta-holds-position-not-data')
        r = yastn.from_dict(yastn.combine_data_and_meta(data, meta))
    else:
        d = a.to_dict(level=level)
        r = yastn.from_dict(d)
    if level >= 1 and ch in ('to_dict', 'resolve_ops', 'split_combine', 'generic'):
        ctx.check(isinstance(d['config'], dict) and isinstance(d['struct'], dict), 'level>=1:plain-python-structures')
    _observably_equal(ctx, r, a, f'{ch}@level{level}')
    if ch != 'legacy' and level < 2:
        pass
    # independence of the restored object at level 2 (data converted/copied)
    if ch == 'to_dict' and level == 2 and a.size:
        ctx.check(r._data is not a._data, 'level2:independent-data')
    return {'a': describe(a), 'level': level, 'channel': ch}


def k_vec(ctx, spec):
    """vec(x) = x.to_dict(level, meta=meta)['data'] is linear and norm-preserving on the space described by meta"""
    import yastn
    rng = rng_of(spec)
    cfg = cat.make_config(spec['sym'])
    tk = spec['tkind']
    a = _make_tensor(ctx, rng, dict(spec, tkind='plain' if tk in ('hard', 'lazy') else tk), cfg, 'a')
    # b, c: same space, fewer / other blocks
    def sub(name, keep):
        t = a.copy()
        if a.isdiag:
            return ctx.fill(t, name, spec.get('dtype', 'real'))
        blocks = list(a.get_blocks_charge())
        if len(blocks) > 1:
            kept = [b for i, b in enumerate(blocks) if keep(i)] or blocks[:1]
            t = yastn.Tensor(config=cfg, s=a.struct.s, n=a.n)
            for bl in kept:
                t.set_block(ts=bl, Ds=a.struct.D[blocks.index(bl)], val='zeros')
        return ctx.fill(t, name, spec.get('dtype', 'real'))
    b = sub('b', lambda i: i % 2 == 0)
    c = sub('c', lambda i: i % 3 != 1)
    fused = False
    if tk == 'hard' and a.ndim >= 2:
        f = lambda t: t.fuse_legs(axes=((0, 1),) + tuple(range(2, t.ndim)), mode='hard')
        a, b, c = f(a), f(b), f(c)
        fused = True
    if tk == 'lazy' and a.ndim >= 2:
        p = tuple(range(a.ndim))[::-1]
        a, b, c = a.transpose(p), b.transpose(p), c.transpose(p)
    level = spec['level']
    meta_src = a.to_dict(level=level)
    data_a, meta = yastn.split_data_and_meta(meta_src, squeeze=True)
    def vec(t):
        d = t.to_dict(level=level, meta=meta)
        v, m2 = yastn.split_data_and_meta(d, squeeze=True)
        return v
    va, vb, vc = vec(a), vec(b), vec(c)
    ctx.check(len(va) == len(vb) == len(vc) == a.size, 'vec:length-given-by-meta', (len(va), len(vb), len(vc), a.size))
    al, be = ctx.scalar('alpha', spec.get('dtype', 'real')), ctx.scalar('beta', 'real')
    ctx.eq(vec(al * b + be * c), al * vb + be * vc, 'vec:linear')
    ctx.eq([(dense.conj(vb) * vb).sum()], [yastn.vdot(b, b)], 'vec:norm-preserving')
    ctx.eq([(dense.conj(vb) * vc).sum()], [yastn.vdot(b, c)], 'vec:inner-product-preserving')
    # and back: the vector defines the tensor
    r = yastn.Tensor.from_dict(yastn.combine_data_and_meta(vb, meta))
    if fused:
        # fused legs of b are narrower than those of the meta (missing sectors): compare after un-fusing, on the meta's legs
        nat = list(a.unfuse_legs(axes=0).get_legs(native=True))
        ctx.eq(reassemble(r.unfuse_legs(axes=0), nat), reassemble(b.unfuse_legs(axes=0), nat), 'vec:inverse-map')
    else:
        nat = list(a.get_legs(native=True)) if a.ndim_n else None
        ctx.eq(reassemble(r, nat), reassemble(b, nat), 'vec:inverse-map')
    return {'a': describe(a), 'level': level}


def k_reject(ctx, spec):
    import yastn
    rng = rng_of(spec)
    symn = spec['sym']
    cfg = cat.make_config(symn)
    a = _make_tensor(ctx, rng, dict(spec, tkind='plain', dtype='real'), cfg)
    level, v = spec['level'], spec['variant']
    d = a.to_dict(level=level)
    Y = yastn.YastnError
    if v == 'sym':
        other = cat.make_config('U1' if symn != 'U1' else 'Z2')
        ctx.expect_raises(lambda: yastn.Tensor.from_dict(a.to_dict(level=level), config=other), Y, 'from_dict:config-with-other-symmetry')
        with warnings.catch_warnings():
            warnings.simplefilter('ignore')
            ctx.expect_raises(lambda: yastn.load_from_dict(config=other, d=a.save_to_dict()), Y, 'load_from_dict:config-with-other-symmetry')
    elif v == 'fermionic':
        other = cat.make_config(symn, fermionic=True)
        ctx.expect_raises(lambda: yastn.from_dict(a.to_dict(level=level), config=other), Y, 'from_dict:config-with-other-statistics')
        with warnings.catch_warnings():
            warnings.simplefilter('ignore')
            ctx.expect_raises(lambda: yastn.load_from_dict(config=other, d=a.save_to_dict()), Y, 'load_from_dict:config-with-other-statistics')
    elif v == 'meta-extra-block':
        blocks = list(a.get_blocks_charge())
        if len(blocks) < 2:
            ctx.skip('single block')
        small = yastn.Tensor(config=cfg, s=a.struct.s, n=a.n)
        small.set_block(ts=blocks[0], Ds=a.struct.D[0], val='zeros')
        _, meta = yastn.split_data_and_meta(small.to_dict(level=level))
        ctx.expect_raises(lambda: a.to_dict(level=level, meta=meta), Y, 'to_dict(meta):tensor-has-block-missing-in-meta')
    elif v == 'meta-signature':
        _, meta = yastn.split_data_and_meta(a.flip_signature().to_dict(level=level))
        if all(x == 0 for x in a.n) and a.config.sym.NSYM == 0:
            pass
        ctx.expect_raises(lambda: a.to_dict(level=level, meta=meta), Y, 'to_dict(meta):signature-mismatch')
    elif v in ('meta-shifted-charges', 'meta-other-n'):
        # same block shapes / order / slices, but other charge sectors (or another total charge): must not be accepted as `matching`
        if cfg.sym.NSYM == 0:
            ctx.skip('no charges')
        lg = cat.rand_leg(rng, symn, nsect=(2,), dims=(1, 2))
        if len(lg['t']) < 2:
            ctx.skip('single sector')
        z = list(cfg.sym.zero())
        t1 = {'sym': symn, 'fermionic': False, 's': [1, -1], 'legs': [lg, lg], 'n': z, 'blocks': [list(t) + list(t) for t in lg['t']], 'dtype': 'real', 'isdiag': False}
        x = cat.build(ctx, t1, 'x', config=cfg)
        if v == 'meta-shifted-charges':
            sh = rng.choice([c for c in cat.window(symn) if any(c)])
            from symx.wellformed import gadd
            lt = sorted({tuple(gadd(cfg.sym.SYM_ID, [tuple(t), sh], [1, 1])) for t in lg['t']})
            if len(lt) != len(lg['t']) or [list(t) for t in lt] == lg['t']:
                ctx.skip('shift collapses sectors')
            # keep the order-preserving image so that shapes / slices coincide
            img = [tuple(gadd(cfg.sym.SYM_ID, [tuple(t), sh], [1, 1])) for t in lg['t']]
            if img != sorted(img):
                ctx.skip('shift does not preserve order')
            lg2 = {'t': [list(t) for t in img], 'D': list(lg['D'])}
            t2 = dict(t1, legs=[lg2, lg2], blocks=[list(t) + list(t) for t in img])
        else:
            # other total charge: signature (1, 1) partner with the same shapes is not available in general -> use n != 0 with shifted second leg
            sh = rng.choice([c for c in cat.window(symn) if any(c)])
            from symx.wellformed import gadd
            img = [tuple(gadd(cfg.sym.SYM_ID, [tuple(t), sh], [1, 1])) for t in lg['t']]
            if img != sorted(img) or len(set(img)) != len(img):
                ctx.skip('shift does not preserve order')
            lg2 = {'t': [list(t) for t in img], 'D': list(lg['D'])}
            n2 = list(gadd(cfg.sym.SYM_ID, [sh], [-1]))
            t2 = dict(t1, legs=[lg, lg2], n=n2, blocks=[list(t) + list(u) for t, u in zip(lg['t'], img)])
        y = cat.build(ctx, t2, 'y', config=cfg)
        ctx.check(x.slices == y.slices and x.struct.D == y.struct.D and x.struct.t != y.struct.t or x.struct.n != y.struct.n, 'precondition: same layout, different charges')
        _, meta = yastn.split_data_and_meta(x.to_dict(level=level))
        ctx.expect_raises(lambda: y.to_dict(level=level, meta=meta), Y, f'to_dict(meta):{v}')
    elif v == 'meta-rank':
        _, meta = yastn.split_data_and_meta(a.add_leg(axis=0).to_dict(level=level))
        ctx.expect_raises(lambda: a.to_dict(level=level, meta=meta), Y, 'to_dict(meta):rank-mismatch')
    elif v == 'type':
        import yastn.tn.mps as mps
        ctx.expect_raises(lambda: mps.MpsMpoOBC.from_dict(a.to_dict(level=level)), (Y, KeyError), 'from_dict:wrong-class')
    elif v == 'legacy-noconfig':
        with warnings.catch_warnings():
            warnings.simplefilter('ignore')
            dd = a.save_to_dict()
        ctx.expect_raises(lambda: yastn.Tensor.from_dict(dd), Y, 'legacy-dict-requires-config')
    elif v == 'dict_ver':
        dd = dict(d, dict_ver=99)
        ctx.expect_raises(lambda: yastn.Tensor.from_dict(dd), Y, 'unsupported-dict_ver')
    return {'variant': v, 'level': level}


def k_mps(ctx, spec):
    import yastn
    import yastn.tn.mps as mps
    rng = rng_of(spec)
    symn, N, obj, level, ch = spec['sym'], spec['N'], spec['obj'], spec['level'], spec['channel']
    cfg = cat.make_config(symn)
    ops = yastn.operators.Spin12(sym=symn if symn != 'Z3' else 'dense', backend=cfg.backend) if symn != 'Z3' else yastn.operators.Spin1(sym='Z3', backend=cfg.backend)
    cfg = ops.config
    if obj == 'mps':
        I = mps.product_mpo(ops.I(), N)
        psi = None
        for n in ([None] if symn == 'dense' else [(0,), (1,), (2,)]):
            try:
                psi = mps.random_mps(I, n=n, D_total=3)
                break
            except yastn.YastnError:
                pass
        if psi is None:
            ctx.skip('no admissible charge')
    elif obj == 'mpo':
        I = mps.product_mpo(ops.I(), N)
        psi = mps.random_mpo(I, D_total=3)
    else:
        I = mps.product_mpo(ops.I(), N)
        H0 = mps.random_mpo(I, D_total=2)
        psi = mps.Mpo(N, periodic=True)
        for n in range(N):
            psi[n] = H0[n].copy()
    phi = psi.shallow_copy() if hasattr(psi, 'shallow_copy') else psi
    for k in list(phi.A):
        t = phi.A[k].copy()
        ctx.fill(t, f'a{k}', 'real')
        phi.A[k] = t
    phi.factor = ctx.scalar('factor', 'real', lo=0.25, hi=4)
    if spec['pC'] and obj != 'mpo_pbc' and N >= 2:
        # central block: a diagonal-free rank-2 tensor between sites 0 and 1
        C = yastn.ones(config=cfg, legs=[phi[0].get_legs(2).conj(), phi[1].get_legs(0).conj()])
        ctx.fill(C, 'pc', 'real')
        phi.pC = (0, 1)
        phi.A[phi.pC] = C
    if ch == 'legacy' and obj == 'mpo_pbc':
        ctx.skip('legacy save_to_dict is defined for open-boundary MPS/MPO only')
    if ch == 'legacy':
        with warnings.catch_warnings():
            warnings.simplefilter('ignore')
            d = phi.save_to_dict()
            r = type(phi).from_dict(d, config=cfg) if False else mps.load_from_dict(cfg, d) if hasattr(mps, 'load_from_dict') and obj != 'mpo_pbc' else None
        if r is None:
            ctx.skip('no legacy loader for this class')
        # legacy form absorbs the central block: compare represented objects
        p2 = phi.shallow_copy()
        p2.absorb_central_()       # to_tensor() contracts site tensors only; the legacy format stores the absorbed form
        T0, T1 = p2.to_tensor(), r.to_tensor()
        nat = list(T0.get_legs(native=True))
        ctx.eq([r.factor], [phi.factor], 'legacy:factor')
        ctx.eq(reassemble(T1, nat), reassemble(T0, nat), 'legacy:represented-object')
        return {'obj': obj, 'N': N, 'legacy': True}
    d = phi.to_dict(level=level)
    if ch == 'split_combine':
        data, meta = yastn.split_data_and_meta(d)
        ctx.check(len(data) == len(phi.A), 'mps:split:one-data-array-per-tensor', (len(data), len(phi.A)))
        r = yastn.from_dict(yastn.combine_data_and_meta(data, meta))
    elif ch == 'generic':
        r = yastn.from_dict(d)
    elif ch == 'config':
        r = type(phi).from_dict(d, config=cfg)
    else:
        r = type(phi).from_dict(d)
    ctx.check(type(r) is type(phi) and r.N == phi.N and r.nr_phys == phi.nr_phys and r.pC == phi.pC, 'mps:type/N/pC', (type(r), r.N, r.pC))
    ctx.eq([r.factor], [phi.factor], 'mps:factor')
    ctx.check(set(r.A) == set(phi.A), 'mps:site-keys', (set(r.A), set(phi.A)))
    for k in phi.A:
        _observably_equal(ctx, r.A[k], phi.A[k], f'mps:site{k}@level{level}')
    return {'obj': obj, 'N': N, 'pC': phi.pC, 'level': level}


def _geometry(name):
    import yastn.tn.fpeps as fpeps
    return {'square_obc': lambda: fpeps.SquareLattice(dims=(2, 2), boundary='obc'), 'square_inf': lambda: fpeps.SquareLattice(dims=(1, 2), boundary='infinite'),
            'cylinder': lambda: fpeps.SquareLattice(dims=(2, 1), boundary='cylinder'), 'checkerboard': lambda: fpeps.CheckerboardLattice(),
            'ruc': lambda: fpeps.RectangularUnitcell(pattern=[[0, 1], [1, 0]]), 'triangular': lambda: fpeps.TriangularLattice()}[name]()


def k_peps(ctx, spec):
    import yastn
    import yastn.tn.fpeps as fpeps
    symn, level = spec['sym'], spec['level']
    cfg = cat.make_config(symn)
    ops = yastn.operators.Spin12(sym=symn, backend=cfg.backend)
    geo = _geometry(spec['lattice'])
    psi = fpeps.product_peps(geo, ops.vec_z(val=1))
    if spec['cls'] == 'Lattice':
        net = fpeps.Lattice(geo)
        for s in geo.sites():
            net[s] = psi[s]
        psi = net
    for i, s in enumerate(geo.sites()):
        t = psi[s].copy()
        ctx.fill(t, f'p{i}', 'real')
        psi[s] = t
    d = psi.to_dict(level=level)
    r = yastn.from_dict(d) if level != 1 else type(psi).from_dict(d, config=cfg)
    ctx.check(type(r) is type(psi), 'peps:type', (type(r), type(psi)))
    ctx.check(r.geometry == psi.geometry and type(r.geometry) is type(psi.geometry), 'peps:geometry')
    ctx.check(list(r.sites()) == list(psi.sites()) and list(r.bonds()) == list(psi.bonds()), 'peps:sites/bonds')
    for s in geo.sites():
        _observably_equal(ctx, r[s], psi[s], f'peps:{s}@level{level}')
    # indexing through equivalent sites survives
    s0 = geo.sites()[0]
    far = (s0[0] + 2 * geo.Nx, s0[1] + 2 * geo.Ny) if geo._periodic == 'ii' else s0
    ctx.check(r[far] is r[s0], 'peps:equivalent-site-indexing')
    return {'lattice': spec['lattice'], 'cls': spec['cls'], 'level': level}
