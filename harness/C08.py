"""
C08 -- canonical forms preserve the state; truncation is honest.  Single-step induction.

The pre-state is an ARBITRARY MPS/MPO: every site tensor (window of <= 3 sites), the factor and, where present, the central block are atomic
solver variables.  One public step is executed through the real code with QR/SVD leaves replaced by their contracts and backend.norm by
nu >= 0, nu^2 == sum |x|^2; z3 decides under every sign / zero-norm / truncation fork:
  (a) the represented state (independent dense contraction incl. central block and factor) is unchanged for normalize=False, and equals the
      old state divided by the positive norm factor otherwise, (b) the updated site tensor is an isometry in the stated direction,
  (c) factor / pC bookkeeping, (d) diagonalize_central_: kept + discarded partition the spectrum, new central block == S_kept/|S_kept|,
      returned number == |S_out|/|S|, state changes by exactly the discarded U_out S_out V_out part, (e) truncate_ combines the per-bond numbers as
      sqrt(1 - prod(1 - d_i^2)).
Sweeps of any length follow by induction on the steps; ||U_out S_out V_out|| == |S_out| for isometric U, V is textbook linear algebra (cited).
"""
from __future__ import annotations
import itertools
import numpy as np
from symx import catalogue as cat
from symx import dense
from symx.dense import reassemble
from symx.wellformed import wellformed
from .common import union_leg, rng_of
from .C01 import hash_seed
from .mpscommon import FAM_SYM, make_ops, sym_chain, dense_chain, charges_for

PROPERTY = 'C08'
FUNCTIONS = ['MpsMpoOBC.orthogonalize_site_', 'absorb_central_', 'diagonalize_central_', 'canonize_ (N <= 2)', 'truncate_ (accumulation of discarded weights)',
             'remove_central_', 'linalg.qr / svd / truncation_mask / apply_mask as used there', 'backend_np.norm (stub)']
ASSUMPTIONS = ['LAPACK qr/svd contracts', 'backend.norm: nu >= 0, nu^2 == sum|x|^2', 'exact arithmetic',
               'induction: every step is shown from an arbitrary (atomic symbolic) pre-state, so sweeps of any length follow']
OUTSIDE = ['Schmidt values EQUAL to those of the dense state (power-sum certificates exceed the budget except for U(1), N = 2 on some seeds: not registered); entropy VALUES (log: transcendental); norm() for N > 3',
           'Eckart-Young optimality itself (cited, not re-proved)', 'degenerate-spectrum tie behaviour beyond C13', 'chains beyond the 3-site window (covered by induction, not executed)']
BOUNDS = {'quick': {'window': 'N in 1..3, bond dimension <= 2, all sites symbolic', 'families': 'spin-1/2 (dense, Z2, U1), spinless fermions (Z2, U1), qudit', 'objects': ['mps', 'mpo (N<=2)']},
          'thorough': {'as quick': 'more structures, spin-1'}}
OPTS = {'quick': {'max_paths': 1500, 'query_timeout_ms': 120000, 'case_deadline_s': 600}, 'thorough': {'max_paths': 6000, 'query_timeout_ms': 300000, 'case_deadline_s': 2400}}
FAMS = [('spin12', 'dense'), ('spin12', 'Z2'), ('spin12', 'U1'), ('spinless', 'Z2'), ('spinless', 'U1'), ('qdit', 'dense')]


def cases(tier, seed):
    out = []
    reps = 1 if tier == 'quick' else 24
    for rep in range(reps):
        fac = {'fam': list(range(len(FAMS))), 'N': [1, 2, 3], 'to': ['first', 'last'], 'normalize': [False, True], 'obj': ['mps', 'mps', 'mpo'], 'step': ['qr', 'qr_absorb', 'absorb_other_way']}
        for i, row in enumerate(cat.covering(fac, seed=seed * 41 + rep, strength=2)):
            c = dict(row)
            c.update(kind='qr_step', tier=tier, id=f'qr-{rep}-{i}', seed=hash_seed(seed, 'C08', 'qr', rep, i))
            out.append(c)
        fac = {'fam': list(range(len(FAMS))), 'N': [1, 2, 3], 'normalize': [False, True], 'trunc': ['none', 'D1', 'D1-block', 'tol-half'], 'pos': ['inner', 'left-edge', 'right-edge']}
        for i, row in enumerate(cat.covering(fac, seed=seed * 43 + rep, strength=2)):
            c = dict(row)
            c.update(kind='svd_step', tier=tier, id=f'svd-{rep}-{i}', seed=hash_seed(seed, 'C08', 'svd', rep, i))
            out.append(c)
        for i, row in enumerate(cat.covering({'fam': list(range(len(FAMS))), 'N': [1, 2], 'to': ['first', 'last'], 'normalize': [False, True]}, seed=seed * 47 + rep, strength=2)):
            c = dict(row)
            c.update(kind='canonize', tier=tier, id=f'canonize-{rep}-{i}', seed=hash_seed(seed, 'C08', 'can', rep, i))
            out.append(c)
    for i, (fam, N, to, normalize) in enumerate(itertools.product([0, 2, 4], [1, 2], ['first', 'last'], [False, True])):
        out.append({'kind': 'zero', 'fam': fam, 'N': N, 'to': to, 'normalize': normalize, 'tier': tier, 'id': f'zero-{i}', 'seed': hash_seed(seed, 'C08', 'zero', i)})
    for i, (fam, trunc) in enumerate(itertools.product(range(len(FAMS)), ['D1', 'D1-block', 'tol-half'])):
        out.append({'kind': 'svd_canon', 'fam': fam, 'N': 2, 'trunc': trunc, 'tier': tier, 'id': f'svdcanon-{fam}-{trunc}', 'seed': hash_seed(seed, 'C08', 'svdcanon', i)})
    for i, (fam, N) in enumerate(itertools.product(range(len(FAMS)), [1, 2, 3])):
        if N == 3 and FAMS[fam][1] == 'dense' and (tier == 'quick' or FAMS[fam][0] == 'qdit'):
            continue        # dense blocks: 3^k sign forks per QR (spin-1/2: thorough only; qudit N=3: beyond the budget)
        out.append({'kind': 'norm', 'fam': fam, 'N': N, 'tier': tier, 'id': f'norm-{fam}-{N}', 'seed': hash_seed(seed, 'C08', 'norm', i)})
    for i, (fam, N) in enumerate(itertools.product(range(len(FAMS)), [2])):
        # NOT registered: the certificates for the chain canonize_ + N x (QR, SVD) are found within the budget only for the U(1) families at
        # N = 2 and only on some seeds (path budget on others): an unstable check is no check.  The kind is kept for experiments (dbg.py).
        continue
        out.append({'kind': 'schmidt', 'fam': fam, 'N': N, 'tier': tier, 'id': f'schmidt-{fam}-{N}', 'seed': hash_seed(seed, 'C08', 'schmidt', i)})
    for i, (obj, N, alpha) in enumerate(itertools.product(['mps', 'mpo'], [1, 2, 3], [1, 2, 0.5])):
        out.append({'kind': 'entropy_wiring', 'obj': obj, 'N': N, 'alpha': alpha, 'tier': tier, 'id': f'entropy-{obj}-{N}-{alpha}', 'seed': hash_seed(seed, 'C08', 'ent', i)})
    for N in (1, 2, 3, 4):
        for to in ('first', 'last'):
            out.append({'kind': 'truncate_accumulate', 'N': N, 'to': to, 'tier': tier, 'id': f'trunc-acc-{N}-{to}', 'seed': 1})
    return out


def run(ctx, spec):
    return globals()['k_' + spec['kind']](ctx, spec)


def _chain(ctx, spec, name='a', obj=None, N=None):
    rng = rng_of(spec)
    fam, symn = FAMS[spec['fam']]
    cfg0 = cat.make_config('dense')
    ops = make_ops(fam, symn, backend=cfg0.backend)
    N = N or spec['N']
    obj = obj or spec.get('obj', 'mps')
    if obj == 'mpo' and N > 1:
        obj = 'mps'
    f = ctx.scalar('factor', 'real', lo=0.25, hi=4)
    psi = sym_chain(ctx, rng, ops, N, name, obj=obj, D=2, n='any' if ops.config.sym.NSYM else None, dtype='real', factor=f)
    return rng, ops, psi, obj


def _site_matrix(psi, n, to):
    """site tensor as a matrix whose columns are the leg that must carry the identity"""
    t = psi.A[n]
    legs = list(t.get_legs(native=True))
    X = reassemble(t, legs)
    if to == 'last':     # rows (l, p[, p']), cols r
        perm = [0, 1, 3, 2] if psi.nr_phys == 2 else [0, 1, 2]
        X = X.transpose(perm)
        return X.reshape(-1, X.shape[-1])
    perm = [1, 2, 3, 0] if psi.nr_phys == 2 else [1, 2, 0]      # rows (p, r[, p']), cols l
    X = X.transpose(perm)
    return X.reshape(-1, X.shape[-1])


def _isometry(ctx, psi, n, to, label):
    M = _site_matrix(psi, n, to)
    G = dense.conj(M.T) @ M
    ctx.eq(G, np.eye(G.shape[0], dtype=object if G.dtype == object else G.dtype), label)


def k_qr_step(ctx, spec):
    rng, ops, psi, obj = _chain(ctx, spec)
    ph = ops.space()
    N, to, normalize = psi.N, spec['to'], spec['normalize']
    n = rng.randrange(N)
    A0 = dense_chain(psi, ph)
    f0 = psi.factor
    orig = psi.shallow_copy()
    # reference QR of the same site tensor with the same arguments: the contract stub is a function of its input, so Q0, R0 are the very
    # LAPACK outputs the step uses (R0 before normalisation)
    if to == 'first':
        ax = (1, 2) if psi.nr_phys == 1 else (1, 2, 3)
        Q0, R0 = psi.A[n].qr(axes=(ax, 0), sQ=-1, Qaxis=0, Raxis=1)
    else:
        ax = (0, 1) if psi.nr_phys == 1 else (0, 1, 3)
        Q0, R0 = psi.A[n].qr(axes=(ax, 2), sQ=1, Qaxis=2)
    nu2 = sum(x * x for x in R0._data)
    ctx.assume(nu2 != 0)        # R == 0 (zero state): concrete 'zero' cases
    psi.orthogonalize_site_(n=n, to=to, normalize=normalize)
    ctx.check(psi.pC == ((n - 1, n) if to == 'first' else (n, n + 1)), 'orthogonalize_site_: pC', psi.pC)
    C = psi.A[psi.pC]
    wellformed(ctx, psi.A[n], 'orthogonalize_site_: Q', check_dense_zero=False)
    wellformed(ctx, C, 'orthogonalize_site_: C', expect_n=ops.config.sym.zero(), check_dense_zero=False)
    _isometry(ctx, psi, n, to, f'orthogonalize_site_(to={to}): site tensor is an isometry')
    ctx.check(C.struct == R0.struct and psi.A[n].struct == Q0.struct, 'step uses the QR of the site tensor (same structure)')
    ctx.eq(list(psi.A[n]._data), list(Q0._data), 'site tensor == Q')
    # (i) central block x |R| == R   (ii) factor bookkeeping   (iii) chain with (Q, R) and the OLD factor == old state
    nu2 = sum(x * x for x in R0._data)
    c2 = sum(x * x for x in C._data)
    if normalize:
        ctx.eq([psi.factor], [1], 'normalize=True: factor == 1')
    else:
        ctx.eq([psi.factor * psi.factor], [f0 * f0 * nu2], 'normalize=False: factor^2 == old factor^2 |R|^2')
        ctx.prove(psi.factor >= 0, 'factor >= 0')
    for x, r in zip(C._data, R0._data):
        # C == R/|R| (or R when R == 0): C^2 |R|^2 == R^2 with equal sign
        ctx.eq([x * x * nu2], [r * r], 'central block == R/|R|: squares')
        ctx.prove((x * r >= 0) if ctx.mode == 'sym' else (x * r >= -1e-12), 'central block == R/|R|: sign')
    if ctx.mode == 'sym':
        ctx.prove(SBor(c2 == 1, nu2 == 0), 'central block has unit norm (unless R == 0)')
    else:
        ctx.prove(abs(c2 - 1) < 1e-9 or abs(nu2) < 1e-12, 'central block has unit norm (unless R == 0)')
    # (iii) local: Q.R == old site tensor (independent dense product), every other site tensor is untouched; the chain is linear in the site tensor,
    #   so with (i), (ii): factor x chain is unchanged (normalize=False) / divided by |R| (normalize=True)
    ctx.eq(_qr_product(Q0, R0, orig.A[n], to, psi.nr_phys), reassemble(orig.A[n], list(orig.A[n].get_legs(native=True))), 'Q.R == old site tensor')
    for k in range(N):
        if k != n:
            ctx.check(psi.A[k] is orig.A[k] or (psi.A[k].struct == orig.A[k].struct and all(x is y for x, y in zip(psi.A[k]._data, orig.A[k]._data))),
                      'orthogonalize_site_: other sites untouched')
    if not normalize and N == 1:
        ctx.eq(dense_chain(psi, ph), A0, 'orthogonalize_site_(normalize=False): represented state unchanged (direct)')
    if spec['step'] == 'qr':
        return {'N': N, 'n': n, 'to': to}
    before = dense_chain(psi, ph)
    fb = psi.factor
    psi.absorb_central_(to=to if spec['step'] == 'qr_absorb' else ('first' if to == 'last' else 'last'))
    ctx.check(psi.pC is None and set(psi.A) == set(range(N)), 'absorb_central_: no central block left', (psi.pC, list(psi.A)))
    ctx.eq([psi.factor], [fb], 'absorb_central_: factor untouched')
    ctx.eq(dense_chain(psi, ph), before, 'absorb_central_: represented state unchanged')
    for k in range(N):
        wellformed(ctx, psi.A[k], 'absorb_central_: site', check_dense_zero=False)
    return {'N': N, 'n': n, 'to': to, 'step': spec['step']}


def _qr_product(Q, R, A, to, nr):
    """independent dense product of the QR factors, embedded in the legs of the original site tensor A"""
    la = list(A.get_legs(native=True))
    lq, lr = list(Q.get_legs(native=True)), list(R.get_legs(native=True))
    if to == 'last':        # A(l,p,r[,p']) = Q(l,p,x[,p']) R(x,r)
        u = union_leg(lq[2], lr[0].conj())
        Qd = reassemble(Q, [la[0], la[1], u] + la[3:])
        Rd = reassemble(R, [u.conj(), la[2]])
        X = np.tensordot(Qd, Rd, axes=(2, 0))        # (l,p[,p'],r)
        return X.transpose(0, 1, 3, 2) if nr == 2 else X
    u = union_leg(lr[1], lq[0].conj())               # A(l,p,r[,p']) = R(l,x) Q(x,p,r[,p'])
    Rd = reassemble(R, [la[0], u])
    Qd = reassemble(Q, [u.conj()] + la[1:])
    return np.tensordot(Rd, Qd, axes=(1, 0))


def SBor(a, b):
    return a | b


def k_svd_step(ctx, spec):
    import yastn
    rng, ops, psi, obj = _chain(ctx, dict(spec, obj='mps'))
    ph = ops.space()
    N, normalize = psi.N, spec['normalize']
    cfg = ops.config
    # arbitrary central block at an arbitrary position (inner bond, or at a chain end): atomic symbols
    pos = spec['pos']
    if pos == 'inner' and N >= 2:
        b = rng.randrange(N - 1)
        pC = (b, b + 1)
        vl, vr = psi[b].get_legs(2).conj(), psi[b + 1].get_legs(0).conj()
    elif pos == 'left-edge' or N == 1 and pos == 'inner':
        pC = (-1, 0)
        l0 = psi[0].get_legs(0)
        vl, vr = l0, l0.conj()
    else:
        pC = (N - 1, N)
        l0 = psi[N - 1].get_legs(2)
        vl, vr = l0.conj(), l0
    C = yastn.zeros(config=cfg, legs=[vl, vr])
    if C.size == 0 or C.size > 16:
        ctx.skip('no/large central block')
    ctx.fill(C, 'c', 'real')
    psi.pC = pC
    psi.A[pC] = C
    A0 = dense_chain(psi, ph)
    f0 = psi.factor
    orig = psi.shallow_copy()
    opts = {'none': {}, 'D1': {'D_total': 1}, 'D1-block': {'D_block': 1}, 'tol-half': {'tol': 0.5}}[spec['trunc']]
    # reference decomposition of the same central block (same LAPACK outputs: the contract stub is a function of its input)
    U0, S0, V0 = yastn.linalg.svd(C, axes=(0, 1), sU=1)
    mask = yastn.linalg.truncation_mask(S0, **opts)
    disc = psi.diagonalize_central_(opts_svd=opts, normalize=normalize)
    ctx.check(psi.pC == pC, 'diagonalize_central_: pC kept')
    Cn = psi.A[pC]
    kept = [bool(x) for x in mask._data]
    s_all = list(S0._data)
    s_keep = [s for s, k in zip(s_all, kept) if k]
    s_out = [s for s, k in zip(s_all, kept) if not k]
    # (d) returned number: disc * |S| == |S_out|
    n2_all = sum(s * s for s in s_all)
    n2_out = sum(s * s for s in s_out) if s_out else 0
    n2_keep = sum(s * s for s in s_keep) if s_keep else 0
    ctx.eq([disc * disc * n2_all], [n2_out], 'diagonalize_central_: discarded^2 |S|^2 == |S_out|^2')
    ctx.prove(disc >= 0, 'discarded >= 0')
    if not s_out:
        ctx.eq([disc], [0], 'nothing discarded when limits do not bind')
    # factor bookkeeping
    if normalize:
        ctx.eq([psi.factor], [1], 'normalize=True: factor == 1')
    else:
        ctx.eq([psi.factor * psi.factor], [f0 * f0 * n2_keep], 'normalize=False: factor^2 == old factor^2 |S_kept|^2')
        ctx.prove(psi.factor >= 0, 'factor >= 0')
    # state: for normalize=False the new state is the chain with U_k S_k V_k in place of the central block, the old state the chain with U S V:
    # the difference is exactly the discarded part U_d S_d V_d (chain is linear in the central block)
    if not any(kept):
        # every Schmidt value truncated (all are zero, or a limit of zero): the represented state is the zero state
        ctx.check(psi.A[pC].size == 0, 'everything truncated: empty central block')
        return {'N': N, 'pC': pC, 'trunc': spec['trunc'], 'kept': kept}
    # (i) new central block x |S_kept| == S_kept, (ii) factor bookkeeping (above), (iii) chain with the un-normalised S_kept and the OLD factor
    #   == chain with U_k S_k V_k  and  old state == chain with U S V: the state changes by exactly the discarded triples
    Uk, Sk, Vk = mask.apply_mask(U0, S0, V0, axes=(1, 0, 0))
    phi = psi.shallow_copy()
    n1, n2 = pC
    if n1 >= 0 and n2 <= N - 1:
        ctx.check(psi.A[pC].isdiag and psi.A[pC].struct == Sk.struct, 'central block is the (diagonal) kept spectrum')
        for x, sv in zip(psi.A[pC]._data, Sk._data):
            ctx.eq([x * x * n2_keep], [sv * sv], 'central block == S_kept/|S_kept|: squares')
            ctx.prove((x >= 0) if ctx.mode == 'sym' else (x >= -1e-12), 'central block >= 0')
        phi.A[pC] = Sk
        phi.factor = f0
        ctx.eq(dense_chain(phi, ph), _state_with(ctx, orig, pC, U0, S0, V0, mask, f0, ph), 'chain with (A.U_k, S_k, V_k.B) == chain with U_k S_k V_k as central block')
    elif not normalize:
        ctx.eq(dense_chain(psi, ph), _state_with(ctx, orig, pC, U0, S0, V0, mask, f0, ph), 'edge: new state == chain with U_k S_k V_k')
    # local: U S V == old central block (then old state == chain with U S V by linearity of the chain in the central block)
    lc = list(C.get_legs(native=True))
    ctx.eq(reassemble(U0 @ S0 @ V0, lc), reassemble(C, lc), 'U S V == old central block')
    for k in psi.A:
        wellformed(ctx, psi.A[k], 'diagonalize_central_: tensors', check_dense_zero=False)
    return {'N': N, 'pC': pC, 'trunc': spec['trunc'], 'kept': kept}


def _state_with(ctx, orig, pC, U0, S0, V0, mask, f0, ph):
    """dense state of the chain with the ORIGINAL site tensors and central block U S V restricted by mask (None = all)"""
    phi = orig.shallow_copy()
    if mask is None:
        C = U0 @ S0 @ V0
    else:
        if not any(bool(x) for x in mask._data):
            ctx.skip('everything truncated')
        Uk, Sk, Vk = mask.apply_mask(U0, S0, V0, axes=(1, 0, 0))
        C = Uk @ Sk @ Vk
    phi.pC = pC
    phi.A[pC] = C
    phi.factor = f0
    return dense_chain(phi, ph)


def k_canonize(ctx, spec):
    rng, ops, psi, obj = _chain(ctx, dict(spec, obj='mps'))
    ph = ops.space()
    N, to, normalize = psi.N, spec['to'], spec['normalize']
    A0 = dense_chain(psi, ph)
    f0 = psi.factor
    # the same sweep done step by step, stopping before the last absorb: exposes the final isometry Q' and the final 1x1 central block c
    # (LAPACK contract stubs are functions of their input, so these are the very values canonize_ computes if it performs the documented sweep)
    ref = psi.shallow_copy()
    order = list(range(N)) if to == 'last' else list(range(N - 1, -1, -1))
    for i, n in enumerate(order):
        ref.orthogonalize_site_(n=n, to=to, normalize=normalize)
        if i < N - 1:
            ref.absorb_central_(to=to)
    cblk = ref.A[ref.pC]
    psi.canonize_(to=to, normalize=normalize)
    ctx.check(psi.pC is None, 'canonize_: no central block left')
    nrm2 = (dense.conj(A0) * A0).sum()
    term = 0 if to == 'first' else N - 1
    for n in range(N):
        if n != term:
            _isometry(ctx, psi, n, to, f'canonize_(to={to}): site {n} is an isometry')
        else:
            # the terminal site has absorbed the final 1x1 central block c = R/|R| (1, or 0 for the zero state): site == Q'.c, Q' isometry, c in {0, 1}
            M = _site_matrix(psi, n, to)
            ctx.check(M.shape[1] == 1 and cblk.size == 1, 'terminal bond has dimension one', (M.shape, cblk.size))
            c = cblk._data[0]
            ctx.eq(M, _site_matrix(ref, n, to) * c, 'canonize_: terminal site == last isometry x last (1x1) central block')
            _isometry(ctx, ref, n, to, 'canonize_: last isometry')
            if ctx.mode == 'sym':
                ctx.prove(SBor(c == 1, c == 0), 'canonize_: last central block is 1 (or 0: the zero state)')
            else:
                ctx.prove(abs(c - 1) < 1e-9, 'canonize_: last central block is 1')
    if normalize:
        ctx.eq([psi.factor], [1], 'canonize_(normalize=True): factor == 1')
    elif N == 1:
        ctx.eq(dense_chain(psi, ph), A0, 'canonize_(normalize=False): represented state unchanged')
        ctx.eq([psi.factor * psi.factor], [nrm2], 'canonize_(normalize=False): factor^2 == <psi|psi>')
    return {'N': N, 'to': to, 'normalize': normalize}


def k_zero(ctx, spec):
    """the zero state (excluded from the symbolic QR step by the assumption R != 0): one site tensor is exactly zero"""
    from .mpscommon import const_data
    rng, ops, psi, obj = _chain(ctx, dict(spec, obj='mps'))
    ph = ops.space()
    N, to, normalize = psi.N, spec['to'], spec['normalize']
    z = rng.randrange(N)
    for k in range(N):
        t = psi.A[k].copy()
        t._data = const_data(ctx, rng, t.size) * (0 if k == z else 1)
        psi.A[k] = t
    psi.factor = 2
    psi.orthogonalize_site_(n=z, to=to, normalize=normalize)
    ctx.is_zero(dense_chain(psi, ph), 'zero state: orthogonalize_site_ keeps the zero state')
    ctx.is_zero(list(psi.A[psi.pC]._data), 'zero state: central block is zero (R == 0 is not normalised)')
    psi.absorb_central_(to=to)
    psi.canonize_(to=to, normalize=normalize)
    ctx.check(psi.pC is None, 'zero state: canonize_ leaves no central block')
    ctx.is_zero(dense_chain(psi, ph), 'zero state: canonize_ keeps the zero state')
    return {'N': N, 'zero_site': z}


def k_svd_canon(ctx, spec):
    """truncation is honest: on a state prepared in the documented mixed canonical form (sites left of the central block left-isometric,
    right of it right-isometric: ASSUMED as equations on the symbolic site tensors), the number returned by diagonalize_central_ is the
    relative distance between the original and the truncated state:
        || old - new ||^2 == factor^2 sum(S_discarded^2),   || old ||^2 == factor^2 sum(S^2),   returned^2 sum(S^2) == sum(S_discarded^2)"""
    import yastn
    from symx import core as _core
    rng, ops, psi, obj = _chain(ctx, dict(spec, obj='mps'))
    ph = ops.space()
    N = psi.N
    cfg = ops.config
    b = 0
    pC = (b, b + 1)
    vl, vr = psi[b].get_legs(2).conj(), psi[b + 1].get_legs(0).conj()
    C = yastn.zeros(config=cfg, legs=[vl, vr])
    if C.size == 0 or C.size > 16:
        ctx.skip('no/large central block')
    ctx.fill(C, 'c', 'real')
    # canonical form as assumption (used for obligations only: non-linear)
    for n, to in ((0, 'last'), (1, 'first')):
        M = _site_matrix(psi, n, to)
        G = dense.conj(M.T) @ M
        for i in range(G.shape[0]):
            for j in range(G.shape[1]):
                if ctx.mode == 'sym':
                    from symx.core import zc
                    _core.ENG.assume(zc(G[i, j])[0] == (1 if i == j else 0), feas=False)
    if ctx.mode == 'float':
        # float run: a genuinely canonical state instead of the assumption
        psi.canonize_(to='last', normalize=False).canonize_(to='first', normalize=False)
        psi.orthogonalize_site_(n=0, to='last', normalize=False)
        C = psi.A[psi.pC]
        psi.factor = 1.0 * psi.factor
    else:
        psi.pC = pC
        psi.A[pC] = C
    A0 = dense_chain(psi, ph)
    f0 = psi.factor
    opts = {'D1': {'D_total': 1}, 'D1-block': {'D_block': 1}, 'tol-half': {'tol': 0.5}}[spec['trunc']]
    U0, S0, V0 = yastn.linalg.svd(psi.A[psi.pC], axes=(0, 1), sU=1)
    mask = yastn.linalg.truncation_mask(S0, **opts)
    disc = psi.diagonalize_central_(opts_svd=opts, normalize=False)
    kept = [bool(x) for x in mask._data]
    s_all = list(S0._data)
    n2_all = sum(x * x for x in s_all)
    n2_out = sum((x * x for x, k in zip(s_all, kept) if not k), 0)
    if not any(kept):
        if ctx.mode == 'sym':
            raise _core.PathAbort('everything truncated on this path (all Schmidt values zero): zero state')
        ctx.skip('everything truncated')
    A1 = dense_chain(psi, ph)
    Dlt = A0 - A1
    ctx.eq([(dense.conj(Dlt) * Dlt).sum()], [f0 * f0 * n2_out], 'canonical form: || old - truncated ||^2 == factor^2 x sum of discarded Schmidt values squared')
    ctx.eq([(dense.conj(A0) * A0).sum()], [f0 * f0 * n2_all], 'canonical form: || old ||^2 == factor^2 x sum of all Schmidt values squared')
    ctx.eq([disc * disc * n2_all], [n2_out], 'returned^2 x sum(S^2) == sum(S_discarded^2): the returned number is the relative distance')
    return {'N': N, 'trunc': spec['trunc'], 'kept': kept}


def k_norm(ctx, spec):
    """norm() (canonisation sweep with normalize=False, returns the accumulated factor) squared == <psi|psi> of the dense state, and >= 0"""
    rng, ops, psi, obj = _chain(ctx, dict(spec, obj='mps'))
    ph = ops.space()
    A0 = dense_chain(psi, ph)
    nrm2 = (dense.conj(A0) * A0).sum()
    snap = [psi.A[n] for n in range(psi.N)]
    nu = psi.norm()
    ctx.check(all(psi.A[n] is snap[n] for n in range(psi.N)) and psi.pC is None, 'norm() leaves the state untouched')
    ctx.prove((nu >= 0) if ctx.mode == 'sym' else (nu >= -1e-12), 'norm() >= 0')
    ctx.eq([nu * nu], [nrm2], 'norm()^2 == <psi|psi> of the dense state')
    return {'N': psi.N}


def k_schmidt(ctx, spec):
    """get_Schmidt_values(): at every cut the returned (normalised) values s_a satisfy  sum_a s_a^{2j} <psi|psi>^j == tr((M M^dagger)^j)  for
    j = 1 .. number of values, M = dense state matricised at the cut: the power sums determine the multiset, so the values ARE the singular
    values of the dense state divided by its norm (Newton identities); values are >= 0"""
    rng, ops, psi, obj = _chain(ctx, dict(spec, obj='mps'))
    ph = ops.space()
    N = psi.N
    A0 = dense_chain(psi, ph)
    nrm2 = (dense.conj(A0) * A0).sum()
    sv = psi.get_Schmidt_values()
    ctx.check(len(sv) == N + 1, 'get_Schmidt_values: N+1 cuts', len(sv))
    d = A0.shape
    for k in range(N + 1):
        vals = list(sv[k]._data)
        for x in vals:
            ctx.prove((x >= 0) if ctx.mode == 'sym' else (x >= -1e-12), 'Schmidt values >= 0')
        rows = int(np.prod(d[:k])) if k else 1
        M = A0.reshape(rows, -1)
        G = M @ dense.conj(M.T)          # rows x rows
        if G.shape[0] > M.shape[1]:
            G = dense.conj(M.T) @ M
        r = min(M.shape)
        ctx.check(len(vals) <= r, 'no more Schmidt values than the dimension of the cut', (len(vals), r))
        P = None
        # symbolic run: j = 1 (normalisation) everywhere; j = 2 (with j = 1: both values of a two-dimensional cut) only where the certificate is
        # found within the budget (U(1) families, N = 2); float run: all j
        npow = r if ctx.mode == 'float' else (min(r, 2) if (FAMS[spec['fam']][1] == 'U1' and N == 2) else 1)
        nj = 1
        for j in range(1, npow + 1):
            P = G if P is None else P @ G
            tr = sum(P[i, i] for i in range(P.shape[0]))
            lhs = sum(x ** (2 * j) for x in vals) * nrm2 ** j
            ctx.eq([lhs], [tr], f'cut {k}: sum s^{2 * j} <psi|psi>^{j} == tr((M M^dagger)^{j})')
    return {'N': N, 'cuts': N + 1}


def k_entropy_wiring(ctx, spec):
    """get_entropy: with get_Schmidt_values replaced by a recorder returning symbolic spectra and linalg.entropy by a recorder, every cut's
    entropy is entropy(p) with p_i = s_i^2 (the Schmidt PROBABILITIES), for MPS and MPO alike, with the requested alpha"""
    import yastn
    import yastn.tn.mps as mps
    import yastn.tn.mps._mps_obc as M
    N, obj, alpha = spec['N'], spec['obj'], spec['alpha']
    cfg = cat.make_config('U1')
    psi = mps.Mps(N) if obj == 'mps' else mps.Mpo(N)
    spectra = []
    for k in range(N + 1):
        leg = yastn.Leg(cfg, s=1, t=[(0,), (1,)], D=[1 + k % 2, 2])
        t = yastn.zeros(config=cfg, legs=[leg, leg.conj()], isdiag=True) if False else yastn.eye(config=cfg, legs=[leg, leg.conj()], isdiag=True)
        ctx.fill(t, f's{k}', 'real', nonneg=True)
        spectra.append(t)
    psi.get_Schmidt_values = lambda: list(spectra)
    calls = []
    tokens = [ctx.scalar(f'e{k}', 'real') for k in range(N + 1)]
    def rec(a, alpha=1, tol=1e-12):
        calls.append((a, alpha))
        return tokens[len(calls) - 1]
    old = M.entropy
    M.entropy = rec
    try:
        res = psi.get_entropy(alpha=alpha)
    finally:
        M.entropy = old
    ctx.check(len(res) == N + 1 and len(calls) == N + 1, 'get_entropy: one value per cut (N+1)', (len(res), len(calls)))
    for k, ((a, al), r) in enumerate(zip(calls, res)):
        ctx.check(r is tokens[k], 'get_entropy returns the entropies in the order of the cuts')
        ctx.check(al == alpha, 'get_entropy passes alpha', al)
        ctx.check(a.isdiag and a.struct == spectra[k].struct, 'entropy is taken of a diagonal tensor with the structure of the spectrum')
        ctx.eq(list(a._data), [x * x for x in spectra[k]._data], f'cut {k}: entropy is taken of the squared Schmidt values (probabilities)')
    return {'N': N, 'obj': obj, 'alpha': alpha}


def k_truncate_accumulate(ctx, spec):
    """truncate_: with the three callees replaced by recorders returning symbolic d_i in [0,1], the returned number is sqrt(1 - prod(1 - d_i^2))"""
    import yastn
    import yastn.tn.mps as mps
    N, to = spec['N'], spec['to']
    psi = mps.Mps(N)
    ds = [ctx.scalar(f'd{i}', 'real', lo=0, hi=1) for i in range(N)]
    calls = []
    class Rec(type(psi)):
        pass
    it = iter(ds)
    psi.orthogonalize_site_ = lambda n, to, normalize: calls.append(('qr', n, to, normalize))
    psi.diagonalize_central_ = lambda opts_svd, normalize: (calls.append(('svd', normalize)), next(it))[1]
    psi.absorb_central_ = lambda to: calls.append(('absorb', to))
    r = psi.truncate_(to=to, opts_svd={'D_total': 1}, normalize=False)
    prod = 1
    for d in ds:
        prod = prod * (1 - d * d)
    ctx.eq([r * r], [1 - prod], 'truncate_: returned^2 == 1 - prod(1 - d_i^2)')
    ctx.prove(r >= 0, 'truncate_: returned >= 0')
    order = [c[1] for c in calls if c[0] == 'qr']
    ctx.check(order == (list(range(N)) if to == 'last' else list(range(N - 1, -1, -1))), 'truncate_: sweep order', order)
    ctx.check([c[0] for c in calls] == ['qr', 'svd', 'absorb'] * N and all(c[-1] == to for c in calls if c[0] in ('absorb',)), 'truncate_: qr -> svd -> absorb per site', calls[:6])
    import yastn as _y
    ctx.expect_raises(lambda: mps.Mps(2).truncate_(to=to), _y.YastnError, 'truncate_ without opts_svd is rejected')
    return {'N': N, 'to': to}
