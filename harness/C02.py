"""
C02 -- every produced tensor is well-formed and conserves charge.

(a) the obligation symx.wellformed.wellformed() (yastn's own is_consistent + an independent re-derivation with the harness' group
    law + "dense elements outside allowed sectors are the constant 0") is attached to every tensor returned in the harnesses of
    C01, C03, C04, C13, C14, C17 (their evidence counts it);
(b) THIS harness: bounded programs -- sequences of public operations applied to catalogue seeds with solver-variable elements; after
    every step the result must be well-formed and carry exactly the total charge the algebra dictates (tracked by the harness).
The block rule => dense rule step for arbitrary charges rests on the group axioms decided for unbounded integers in C19.
"""
from __future__ import annotations
import itertools
import numpy as np
from symx import catalogue as cat
from symx.wellformed import wellformed, gadd
from .common import rng_of, describe
from .C01 import hash_seed

PROPERTY = 'C02'
OPS = ['fuse_hard', 'fuse_meta', 'unfuse', 'transpose', 'conj', 'dot', 'add', 'trace', 'svd', 'qr', 'add_leg', 'remove_leg', 'switch_signature', 'copy',
       'flip_charges', 'consume', 'mask', 'scalar', 'outer', 'flip_signature', 'diag', 'eigh', 'block', 'to_from_dict']
FUNCTIONS = ['is_consistent', '_fill_tensor/set_block/zeros (seeds)', 'sequences over: ' + ', '.join(OPS)]
ASSUMPTIONS = ['exact arithmetic', 'LAPACK contracts for svd/qr/eigh steps', 'group axioms for arbitrary charges: see C19']
OUTSIDE = ['programs longer than the bound', 'the creation-time selection rule for symbolic charges inside _fill_tensor/set_block (charges are enumerated, not symbolic)', 'rank > 6']
BOUNDS = {'quick': {'program length': 3, 'alphabet': len(OPS), 'programs': 'pairwise covering over (sym, op1, op2, op3, dtype, charge style)', 'seeds': 'catalogue rank 2..4, dims 1,2'},
          'thorough': {'program length': 4, 'programs': 'pairwise covering + 600 extra random rows, 30 repetitions; at most two factorisations per program'}}
OPTS = {'quick': {'max_paths': 400, 'case_deadline_s': 300}, 'thorough': {'max_paths': 6000, 'case_deadline_s': 1500}}
SYMS = list(cat.SYMS)


def cases(tier, seed):
    out = []
    L = 3 if tier == 'quick' else 4
    fac = {'sym': SYMS, 'dtype': ['real', 'complex'], 'n_style': ['zero', 'random'], 'rank': [2, 3, 4]}
    for k in range(L):
        fac[f'op{k}'] = OPS
    reps = 1 if tier == 'quick' else 30
    for rep in range(reps):
        for i, row in enumerate(cat.covering(fac, seed=seed * 29 + rep, strength=2 if tier == 'quick' else 2, extra=0 if tier == 'quick' else 600)):
            c = dict(row)
            # at most two factorisations per program: each one forks 3^k ways on the signs / order of its outputs (path budget)
            nfac = 0
            for k in range(L):
                if c[f'op{k}'] in ('svd', 'qr', 'eigh', 'svd_trunc', 'eigh_trunc'):
                    nfac += 1
                    if nfac > 2:
                        c[f'op{k}'] = 'conj'
            c.update(kind='program', tier=tier, id=f'prog-{rep}-{i}', seed=hash_seed(seed, 'C02', rep, i), L=L)
            out.append(c)
    # creation routines: every symmetry x rank 0..6 x diag
    for sym in SYMS:
        for rank in range(0, 7):
            out.append({'kind': 'create', 'sym': sym, 'rank': rank, 'tier': tier, 'id': f'create-{sym}-{rank}', 'seed': hash_seed(seed, 'C02c', sym, rank)})
    return out


def run(ctx, spec):
    return globals()['k_' + spec['kind']](ctx, spec)


def k_create(ctx, spec):
    import yastn
    rng = rng_of(spec)
    symn, rank = spec['sym'], spec['rank']
    cfg = cat.make_config(symn, fermionic=rng.choice(cat.FERMIONIC_LEVELS[symn]))
    symid = cfg.sym.SYM_ID
    ts = cat.rand_tensor_spec(rng, symn, rank, dims=(1, 2), nsect=(1, 2) if rank > 3 else (1, 2, 3), max_size=300)
    if ts is None:
        ctx.skip('none')
    legs = [yastn.Leg(cfg, s=s, t=[tuple(t) for t in l['t']], D=l['D']) for s, l in zip(ts['s'], ts['legs'])]
    n = tuple(ts['n']) if cfg.sym.NSYM else None
    made = {'zeros': yastn.zeros(config=cfg, legs=legs, n=n) if rank else yastn.zeros(config=cfg, s=(), n=n),
            'ones': yastn.ones(config=cfg, legs=legs, n=n) if rank else yastn.ones(config=cfg, s=(), n=n),
            'rand': yastn.rand(config=cfg, legs=legs, n=n) if rank else yastn.rand(config=cfg, s=(), n=n)}
    for k, t in made.items():
        wellformed(ctx, t, f'create:{k}', expect_n=tuple(ts['n']))
        # all and only the allowed blocks exist
        exp = sorted(sum(b, ()) for b in cat.allowed_blocks(symn, ts['s'], ts['legs'], ts['n'])) if rank else [()]
        ctx.check(sorted(t.get_blocks_charge()) == exp, f'create:{k}:exactly-the-allowed-blocks', (len(t.get_blocks_charge()), len(exp)))
    if rank == 2:
        l = legs[0]
        e = yastn.eye(config=cfg, legs=[l, l.conj()])
        wellformed(ctx, e, 'create:eye(diag)', expect_n=cfg.sym.zero())
        e2 = yastn.eye(config=cfg, legs=[l, l.conj()], isdiag=False)
        wellformed(ctx, e2, 'create:eye', expect_n=cfg.sym.zero())
    a = cat.build(ctx, ts, 'a', config=cfg)
    wellformed(ctx, a, 'create:symbolic-seed', expect_n=tuple(ts['n']))
    return {'sym': symn, 'rank': rank}


def k_program(ctx, spec):
    import yastn
    rng = rng_of(spec)
    symn = spec['sym']
    cfg = cat.make_config(symn)
    symid = cfg.sym.SYM_ID
    zero = tuple(cfg.sym.zero())
    ts = cat.rand_tensor_spec(rng, symn, spec['rank'], dims=(1, 2), nsect=(1, 2), max_size=40, dtype=spec['dtype'], n_style=spec['n_style'],
                              drop=rng.choice(['none', 'some']))
    if ts is None:
        ctx.skip('none')
    x = cat.build(ctx, ts, 'a', config=cfg)
    n = tuple(ts['n'])
    trace_log = []
    nfresh = [0]
    def fresh_like(t, tag):
        nfresh[0] += 1
        c = t.copy()
        return ctx.fill(c, f'{tag}{nfresh[0]}', spec['dtype'])
    for k in range(spec['L']):
        op = spec[f'op{k}']
        try:
            r, nn = _step(ctx, rng, cfg, op, x, n, fresh_like)
        except yastn.YastnError as e:
            trace_log.append((op, 'rejected'))
            continue
        if r is None:
            trace_log.append((op, 'n/a'))
            continue
        wellformed(ctx, r, f'step{k}:{op}', expect_n=nn, check_dense_zero=(r.size <= 200))
        if r.size > 300 or r.ndim_n > 6:
            trace_log.append((op, 'too-large-stop'))
            break
        x, n = r, nn
        trace_log.append((op, 'ok'))
    return {'seed': describe(x), 'program': trace_log}


def _step(ctx, rng, cfg, op, x, n, fresh_like):
    import yastn
    symid = cfg.sym.SYM_ID
    zero = tuple(cfg.sym.zero())
    neg = lambda c: gadd(symid, [c], [1], -1)
    nd = x.ndim
    if op in ('fuse_hard', 'fuse_meta'):
        if nd < 2 or x.isdiag:
            return None, None
        p = list(range(nd)); rng.shuffle(p)
        k = rng.randint(2, min(3, nd))
        axes = (tuple(p[:k]),) + tuple(p[k:])
        pos = rng.randint(0, len(axes) - 1)
        axes = axes[1:pos + 1] + axes[:1] + axes[pos + 1:]
        return x.fuse_legs(axes=axes, mode=op[5:]), n
    if op == 'unfuse':
        f = [i for i in range(nd) if x.get_legs(i).is_fused()]
        if not f or x.isdiag:
            return None, None
        return x.unfuse_legs(axes=rng.choice(f)), n
    if op == 'transpose':
        if nd < 2:
            return None, None
        p = list(range(nd)); rng.shuffle(p)
        return x.transpose(tuple(p)), n
    if op == 'conj':
        return x.conj(), neg(n)
    if op == 'flip_signature':
        return x.flip_signature(), neg(n)
    if op == 'consume':
        return x.consume_transpose(), n
    if op == 'copy':
        return x.copy(), n
    if op == 'scalar':
        return (x * ctx.scalar(f's{rng.random()}', 'real')) if rng.random() < 0.5 else -x, n
    if op == 'add':
        y = fresh_like(x, 'y')
        return x + y if rng.random() < 0.5 else x - y, n
    if op == 'dot':
        if nd < 1 or x.isdiag:
            return None, None
        k = rng.randint(1, min(2, nd))
        ax = rng.sample(range(nd), k)
        y = fresh_like(x, 'y').conj()
        if x.size * y.size > 3000:
            return None, None
        return yastn.tensordot(x, y, axes=(tuple(ax), tuple(ax))), gadd(symid, [n, neg(n)], [1, 1])
    if op == 'outer':
        if x.size > 12 or nd > 2 or x.isdiag:
            return None, None
        y = fresh_like(x, 'y')
        return yastn.tensordot(x, y, axes=((), ())), gadd(symid, [n, n], [1, 1])
    if op == 'trace':
        if x.isdiag:
            return x.trace(), n
        legs = x.get_legs()
        pairs = [(i, j) for i in range(nd) for j in range(nd) if i < j and legs[i].s == -legs[j].s and not legs[i].is_fused() and not legs[j].is_fused()
                 and all(dict(zip(legs[j].t, legs[j].D)).get(t, D) == D for t, D in zip(legs[i].t, legs[i].D))]
        if not pairs:
            return None, None
        i, j = rng.choice(pairs)
        return x.trace(axes=(i, j)), n
    if op in ('svd', 'qr', 'eigh'):
        if nd < 2 or x.isdiag or x.size > 24:
            return None, None
        p = list(range(nd)); rng.shuffle(p)
        cut = rng.randint(1, nd - 1)
        axes = (tuple(p[:cut]), tuple(p[cut:]))
        if op == 'svd':
            nU = rng.random() < 0.5
            U, S, V = yastn.linalg.svd(x, axes=axes, sU=rng.choice([1, -1]), nU=nU)
            wellformed(ctx, S, 'svd:S', expect_n=zero, check_dense_zero=False)
            wellformed(ctx, V, 'svd:V', expect_n=zero if nU else n, check_dense_zero=False)
            which = rng.choice(['U', 'USV', 'V'])
            if which == 'U':
                return U, n if nU else zero
            if which == 'V':
                return V, zero if nU else n
            return U @ S @ V, n
        if op == 'qr':
            from .C04 import _merged_block_dims
            if sum(min(D) for D in _merged_block_dims(x, axes)) > 3:
                return None, None
            Q, R = yastn.linalg.qr(x, axes=axes, sQ=rng.choice([1, -1]))
            wellformed(ctx, R, 'qr:R', expect_n=zero, check_dense_zero=False)
            return (Q, n) if rng.random() < 0.5 else (Q @ R, n)
        # eigh of x x^H over the chosen bipartition (hermitian by construction, zero charge)
        h = yastn.tensordot(x, x.conj(), axes=(axes[1], axes[1]))
        k = len(axes[0])
        wellformed(ctx, h, 'eigh:input', expect_n=gadd(symid, [n, neg(n)], [1, 1]), check_dense_zero=False)
        if h.size > 40:
            return None, None
        S, U = yastn.linalg.eigh(h, axes=(tuple(range(k)), tuple(range(k, 2 * k))), which='SR')
        wellformed(ctx, S, 'eigh:S', expect_n=zero, check_dense_zero=False)
        return U, zero
    if op == 'add_leg':
        if x.isdiag:
            return None, None
        s = rng.choice([1, -1])
        if rng.random() < 0.5:
            return x.add_leg(axis=rng.randint(-(nd + 1), nd), s=s), gadd(symid, [n, gadd(symid, [n], [-1], s)], [1, s])
        t = rng.choice(cat.window(cfg.sym.SYM_ID if symid != 'dense' else 'dense'))
        return x.add_leg(axis=rng.randint(0, nd), s=s, t=t), gadd(symid, [n, t], [1, s])
    if op == 'remove_leg':
        if x.isdiag:
            return None, None
        legs = x.get_legs()
        c = [i for i, l in enumerate(legs) if l.D == (1,) and not l.is_fused()]
        if not c:
            return None, None
        i = rng.choice(c)
        return x.remove_leg(axis=i), gadd(symid, [n, legs[i].t[0]], [1, -legs[i].s])
    if op == 'switch_signature':
        if nd < 1 or x.isdiag or x.size > 60:
            return None, None
        return x.switch_signature(axes=[rng.randrange(nd)]) if rng.random() < 0.7 else x.switch_signature('all'), n
    if op == 'flip_charges':
        if nd < 1 or x.isdiag:
            return None, None
        c = [i for i in range(nd) if not x.get_legs(i).is_fused()]
        if not c:
            return None, None
        return x.flip_charges(axes=rng.choice(c)), n
    if op == 'mask':
        if x.isdiag or nd < 1:
            return None, None
        c = [i for i in range(nd) if not x.get_legs(i).is_fused()]
        if not c:
            return None, None
        i = rng.choice(c)
        leg = x.get_legs(i)
        m = yastn.Tensor(config=cfg, s=(-leg.s, leg.s), isdiag=True)
        for t, D in zip(leg.t, leg.D):
            m.set_block(ts=t, Ds=D, val='zeros')
        bits = [rng.random() < 0.6 for _ in range(m.size)]
        if not bits:
            return None, None
        if not any(bits):
            bits[0] = True
        m._data = np.array(bits, dtype=bool)
        return m.apply_mask(x, axes=i), n
    if op == 'diag':
        if x.isdiag:
            return x.diag(), n
        if nd == 2 and all(v == 0 for v in n):
            return x.diag(), n
        return None, None
    if op == 'block':
        if x.isdiag or nd < 1 or x.size > 40:
            return None, None
        y = fresh_like(x, 'y')
        pos = {(0,) * nd: x.consume_transpose() if False else x, tuple(1 if i == 0 else 0 for i in range(nd)): y}
        return yastn.block(pos), n
    if op == 'to_from_dict':
        return yastn.from_dict(x.to_dict(level=rng.choice([0, 1, 2]))), n
    raise KeyError(op)
