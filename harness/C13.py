"""
C13 -- truncation keeps exactly the largest weights and reports the true error.

(a) the REAL truncation_mask is executed on a diagonal tensor whose spectrum consists of solver variables s_i >= 0
    (ties, zeros allowed: they are just paths); every comparison inside argsort / max / `> tol*max` forks; on each path the
    (then concrete) mask is checked against the limit / maximality / completeness obligations with z3 under the path condition.
(b) svd_with_truncation / eigh_with_truncation run through the LAPACK contract stubs: the same indices are removed from
    U, S, V and  a - U_k S_k V_k  ==  U_d S_d V_d  element-wise.
"""
from __future__ import annotations
import itertools
import numpy as np
from symx import catalogue as cat
from symx import dense
from symx.dense import reassemble
from symx.wellformed import wellformed
from .common import rng_of, cfg_of, describe

PROPERTY = 'C13'
FUNCTIONS = ['yastn.linalg.truncation_mask', 'Tensor.apply_mask / _meta_mask', 'svd_with_truncation', 'eigh_with_truncation',
             'backend_np.argsort/max_abs/sum_elements/apply_mask', 'linalg.svd/eigh (through LAPACK contract stubs)']
ASSUMPTIONS = ['spectrum values are arbitrary non-negative reals (ties and zeros included)', 'tol, tol_block in [0,1) (symbolic) or 0',
               'LAPACK svd/eigh replaced by their contract (part b)']
OUTSIDE = ['truncate_multiplets=True heuristics and truncation_mask_multiplets', 'user mask_f callbacks', 'spectra with more than 6 values / 3 sectors']
BOUNDS = {'quick': {'values': '<= 4 in <= 3 sectors (all compositions)', 'D_total': '0..k, inf', 'D_block': '0,1,2,inf, per-sector dict',
                    'tol/tol_block': '0, symbolic in (0,1), per-sector dict', 'svd/eigh blocks': '<= 2x2, <= 3 blocks'},
          'thorough': {'values': '<= 5 in <= 3 sectors', 'D_total': '0..k, inf', 'D_block': '0,1,2,3,inf, dict', 'tol/tol_block': '0, symbolic, dict',
                       'svd/eigh blocks': '<= 3x3'}}
OPTS = {'quick': {'max_paths': 20000, 'case_deadline_s': 900}, 'thorough': {'max_paths': 200000, 'case_deadline_s': 3000}}
INF = float('inf')
SECTOR_T = {'U1': [(-1,), (0,), (1,)], 'Z2': [(0,), (1,)], 'Z3': [(0,), (1,), (2,)], 'dense': [()], 'U1xU1': [(0, 0), (0, 1), (1, -1)],
            'Z2xU1': [(0, 0), (1, 0), (1, 1)]}


def compositions(k, maxparts):
    out = []
    for parts in range(1, maxparts + 1):
        for c in itertools.combinations(range(1, k), parts - 1):
            out.append([b - a for a, b in zip((0,) + c, c + (k,))])
    return out


def cases(tier, seed):
    out = []
    kmax = 4 if tier == 'quick' else 5
    syms = ['U1', 'Z2', 'Z3', 'dense', 'U1xU1', 'Z2xU1']
    n = 0
    for k in range(1, kmax + 1):
        for comp in compositions(k, 3):
            facs = {'D_total': [0, 1, 2, k - 1, k, INF] if k > 2 else [0, 1, k, INF],
                    'D_block': [0, 1, 2, INF, 'dict'] if tier == 'quick' else [0, 1, 2, 3, INF, 'dict'],
                    'tol': ['0', 'sym'], 'tol_block': ['0', 'sym', 'dict']}
            rows = cat.covering({k_: sorted(set(map(str, v)), key=str) for k_, v in facs.items()}, seed=seed + n, strength=2)
            for i, row in enumerate(rows):
                sym = syms[(n + i) % len(syms)]
                if len(comp) > len(SECTOR_T[sym]):
                    sym = 'U1'
                out.append({'id': f'mask-k{k}-{"_".join(map(str, comp))}-{i}', 'kind': 'mask', 'sym': sym, 'comp': comp,
                            'D_total': row['D_total'], 'D_block': row['D_block'], 'tol': row['tol'], 'tol_block': row['tol_block'],
                            'tier': tier, 'seed': seed * 7919 + n * 31 + i})
            n += 1
    # decompositions with truncation
    for i in range(24 if tier == 'quick' else 80):
        out.append({'id': f'svdtrunc-{i}', 'kind': 'svd_trunc', 'sym': ['U1', 'Z2', 'dense', 'Z3'][i % 4], 'tier': tier, 'seed': seed * 104729 + i,
                    'D_total': [1, 2, INF, 0][i % 4] if i % 5 else 1, 'D_block': [INF, 1][(i // 4) % 2], 'tol': ['0', 'half'][(i // 8) % 2]})
    for i in range(12 if tier == 'quick' else 40):
        out.append({'id': f'eightrunc-{i}', 'kind': 'eigh_trunc', 'sym': ['U1', 'Z2', 'dense'][i % 3], 'tier': tier, 'seed': seed * 15485863 + i,
                    'D_total': [1, 2, INF][i % 3], 'which': ['LM', 'LR', 'SR', 'SM'][(i // 3) % 4]})
    # limits on eigenvalue selections: D_block and D_total together, tolerances switched off (-inf), every ordering
    for i in range(24 if tier == 'quick' else 96):
        out.append({'id': f'eighlimits-{i}', 'kind': 'eigh_limits', 'sym': ['U1', 'Z2', 'U1'][i % 3], 'tier': tier, 'seed': seed * 32452843 + i,
                    'D_total': [1, 2, 3, INF][i % 4], 'D_block': [1, 2, INF][(i // 4) % 3], 'which': ['LM', 'LR', 'SR', 'SM'][(i // 2) % 4]})
    return out


def run(ctx, spec):
    return globals()['k_' + spec['kind']](ctx, spec)


def _num(x):
    return INF if x == 'inf' else int(x)


def k_mask(ctx, spec):
    import yastn
    cfg = cat.make_config(spec['sym'])
    comp = spec['comp']
    ts = SECTOR_T[spec['sym']][:len(comp)]
    S = yastn.Tensor(config=cfg, s=(1, -1), isdiag=True)
    for t, D in zip(ts, comp):
        S.set_block(ts=t, Ds=D, val='zeros')
    ctx.fill(S, 's', 'real', nonneg=True)
    vals = list(S._data)
    blocks = []          # per block: list of global indices
    pos = 0
    for D in comp:
        blocks.append(list(range(pos, pos + D)))
        pos += D
    k = pos
    # options
    D_total = _num(spec['D_total'])
    if spec['D_block'] == 'dict':
        D_block = {ts[0]: 1}
        if len(ts) > 2:
            D_block[ts[2]] = 0
        capb = [D_block.get(t, 0) for t in ts]      # sectors missing in the dict get D_null = 0
    else:
        D_block = _num(spec['D_block'])
        capb = [D_block] * len(ts)
    tol = 0 if spec['tol'] == '0' else ctx.scalar('tol', 'real', lo=0, hi=1, lo_strict=True, hi_strict=True)
    if spec['tol_block'] == '0':
        tol_block, tolb = 0, [0] * len(ts)
    elif spec['tol_block'] == 'sym':
        tol_block = ctx.scalar('tolb', 'real', lo=0, hi=1, lo_strict=True, hi_strict=True)
        tolb = [tol_block] * len(ts)
    else:
        x = ctx.scalar('tolb', 'real', lo=0, hi=1, lo_strict=True, hi_strict=True)
        tol_block = {ts[-1]: x}
        tolb = [tol_block.get(t, 0) for t in ts]    # sectors missing in the dict get tol_null = 0
    M = S.truncation_mask(tol=tol, tol_block=tol_block, D_block=D_block, D_total=D_total)
    # --- structural obligations on the mask tensor
    ctx.check(M.isdiag and M.struct == S.struct and M.slices == S.slices and M.get_legs() == S.get_legs(), 'mask:same-structure-as-S')
    ctx.check(M._data.dtype == bool and M._data.shape == (k,), 'mask:bool-data', (M._data.dtype, M._data.shape))
    ctx.check(all(type(x) is not type(None) for x in S._data), 'S:not-modified-shape')
    keep = [bool(x) for x in M._data]
    K = [i for i in range(k) if keep[i]]
    Dd = [i for i in range(k) if not keep[i]]
    # --- limits
    ctx.check(len(K) <= D_total, 'limit:D_total', (len(K), D_total))
    for b, idx in enumerate(blocks):
        ctx.check(sum(keep[i] for i in idx) <= capb[b], 'limit:D_block', (b, capb[b]))
    sym = ctx.mode == 'sym'
    def gt(a, b):   # a > b as obligation term / bool
        return a > b
    def mx(idx):
        return [vals[i] for i in idx]
    # block maxima are characterised instead of computed: m_b >= every value and equals one of them
    elig_blocks = [b for b in range(len(blocks)) if capb[b] >= 1]
    for i in K:
        b = next(bb for bb, idx in enumerate(blocks) if i in idx)
        for j in blocks[b]:
            ctx.prove(gt(vals[i], tolb[b] * vals[j]) if not _iszero(tolb[b]) else (vals[i] > 0), 'limit:tol_block(kept > tol_block*block-max)')
        for bb in elig_blocks:
            for j in blocks[bb]:
                ctx.prove(gt(vals[i], tol * vals[j]) if not _iszero(tol) else (vals[i] > 0), 'limit:tol(kept > tol*max)')
    # --- maximality: no discarded value exceeds a kept value competing under the same limit
    for u in Dd:
        bu = next(bb for bb, idx in enumerate(blocks) if u in idx)
        for v in K:
            bv = next(bb for bb, idx in enumerate(blocks) if v in idx)
            if bu == bv:
                ctx.prove(vals[u] <= vals[v], 'maximal:within-block(discarded <= kept)')
        nb = sum(keep[i] for i in blocks[bu])
        if nb < capb[bu] and capb[bu] >= 1:
            # block cap does not bind for u: if u passes both tolerances it may only lose against the global cap
            passes = _all(ctx, [gt(vals[u], tolb[bu] * vals[j]) if not _iszero(tolb[bu]) else (vals[u] > 0) for j in blocks[bu]] +
                          [gt(vals[u], tol * vals[j]) if not _iszero(tol) else (vals[u] > 0) for bb in elig_blocks for j in blocks[bb]])
            if len(K) < D_total:
                ctx.prove(_not(ctx, passes), 'complete:eligible-value-kept-when-no-cap-binds')
            else:
                for v in K:
                    ctx.prove(_implies(ctx, passes, vals[u] <= vals[v]), 'maximal:global(discarded eligible <= every kept)')
    # --- non-binding limits: only exact zeros are dropped
    if D_total >= k and all(capb[b] >= len(blocks[b]) for b in range(len(blocks))) and _iszero(tol) and all(_iszero(x) for x in tolb):
        for u in Dd:
            ctx.eq([vals[u]], [0], 'non-binding:only-zero-weights-dropped')
    # --- applying the mask removes exactly the unmarked indices
    if K:
        T = S.copy()
        Tk = M.apply_mask(T, axes=0)
        wellformed(ctx, Tk, 'apply_mask(S)', check_dense_zero=False)
        ctx.eq(list(Tk._data), [vals[i] for i in K], 'apply_mask:kept-values-in-order')
    return {'sym': spec['sym'], 'comp': comp, 'opts': {k_: spec[k_] for k_ in ('D_total', 'D_block', 'tol', 'tol_block')}, 'kept': K}


def _iszero(x):
    return isinstance(x, (int, float)) and x == 0


def _all(ctx, cs):
    if ctx.mode == 'float':
        return all(bool(c) for c in cs)
    r = None
    for c in cs:
        if isinstance(c, (bool, np.bool_)):
            if not c:
                return False
            continue
        r = c if r is None else (r & c)
    return True if r is None else r


def _not(ctx, c):
    if isinstance(c, (bool, np.bool_)):
        return not c
    return ~c


def _implies(ctx, a, b):
    if isinstance(a, (bool, np.bool_)):
        return b if a else True
    if isinstance(b, (bool, np.bool_)):
        return True if b else ~a
    return (~a) | b


# ----------------------------------------------------------------------------------------------------------------------

def _matrix_like(ctx, rng, spec, cfg, name='a', maxdim=2, square=False, n_zero=False):
    """rank-2..3 tensor whose bipartition gives small blocks"""
    symn = spec['sym']
    rank = rng.choice([2, 2, 3])
    ts = cat.rand_tensor_spec(rng, symn, rank, dims=(1, 2), nsect=(1, 2), max_size=24, n_style='zero' if n_zero else 'random')
    if ts is None:
        ctx.skip('none')
    return cat.build(ctx, ts, name, config=cfg), ts


def k_svd_trunc(ctx, spec):
    import yastn
    rng = rng_of(spec)
    cfg = cat.make_config(spec['sym'])
    a, ts = _matrix_like(ctx, rng, spec, cfg)
    rank = a.ndim
    perm = list(range(rank))
    rng.shuffle(perm)
    cut = rng.randint(1, rank - 1)
    axes = (tuple(perm[:cut]), tuple(perm[cut:]))
    D_total, D_block = spec['D_total'], spec['D_block']
    tol = 0 if spec['tol'] == '0' else 0.5
    sU = rng.choice([1, -1])
    U, S, V = yastn.linalg.svd_with_truncation(a, axes=axes, sU=sU, D_total=D_total, D_block=D_block, tol=tol)
    U0, S0, V0 = yastn.linalg.svd(a, axes=axes, sU=sU)
    for x, nm in ((U, 'U'), (S, 'S'), (V, 'V')):
        wellformed(ctx, x, f'svd_trunc:{nm}', check_dense_zero=False)
    # the connecting legs of U, S, V agree
    lU, lS0, lS1, lV = U.get_legs(-1), S.get_legs(0), S.get_legs(1), V.get_legs(0)
    ctx.check(lU.t == lS1.t == lV.t == lS0.t and lU.D == lS0.D == lS1.D == lV.D, 'svd_trunc:same-indices-removed-from-U-S-V',
              (lU.t, lU.D, lS0.t, lS0.D, lV.t, lV.D))
    ctx.check(sum(lS0.D) <= D_total, 'svd_trunc:D_total')
    ctx.check(all(d <= D_block for d in lS0.D), 'svd_trunc:D_block')
    # a - U S V (truncated) == contribution of the discarded triples
    full = U0 @ S0 @ V0
    kept = U @ S @ V
    legs = full.get_legs(native=True)
    A = reassemble(a.transpose(axes[0] + axes[1]), legs)
    Fk = reassemble(kept, legs) if kept.size else np.zeros(A.shape, dtype=A.dtype)
    # discarded part: mask complement built in the harness from the kept legs
    mask_keep = yastn.linalg.truncation_mask(S0, D_total=D_total, D_block=D_block, tol=tol)
    comp = mask_keep.copy()
    comp._data = ~mask_keep._data if mask_keep._data.dtype == bool else np.logical_not(mask_keep._data)
    if comp._data.any():
        Ud, Sd, Vd = comp.apply_mask(U0, S0, V0, axes=(-1, 0, 0))
        Fd = reassemble(Ud @ Sd @ Vd, legs)
    else:
        Fd = np.zeros(A.shape, dtype=A.dtype)
    ctx.eq(A - Fk, Fd, 'svd_trunc: a - U_k S_k V_k == U_d S_d V_d')
    # the truncation error is exactly the norm of the discarded values: ||U_d S_d V_d||_F^2 == sum of discarded s^2 (isometry relations of the
    # contract; decided by an ideal-membership certificate, symx.ideal)
    if comp._data.any():
        disc2 = sum(x * x for x in Sd._data)
    else:
        disc2 = 0
    ctx.eq([(dense.conj(Fd) * Fd).sum()], [disc2], 'svd_trunc: || a - U_k S_k V_k ||^2 == sum of the discarded singular values squared')
    ctx.eq(reassemble(full, legs), A, 'svd: U S V == a')
    return {'a': describe(a), 'axes': axes, 'D_total': D_total, 'kept': lS0.D}


def k_eigh_limits(ctx, spec):
    """eigh_with_truncation with D_block and D_total (tolerances off: tol = tol_block = -inf, the documented way to truncate by dimension for
    every `which`), checked WITHOUT truncation_mask as oracle: per sector the kept values are the first k_b of the sorted spectrum with
    k_b <= D_block, the total number kept is min(D_total, sum_b min(D_block, n_b)) (nothing is discarded when no limit binds), and no
    discarded value that survives its block limit outranks a kept one"""
    import yastn
    rng = rng_of(spec)
    cfg = cat.make_config(spec['sym'])
    symn = spec['sym']
    leg = cat.rand_leg(rng, symn, nsect=(2,), dims=(1, 2))
    if len(leg['t']) < 2 or sum(leg['D']) < 3:
        leg = cat.rand_leg(rng, symn, nsect=(2,), dims=(2,))
    s0 = rng.choice([1, -1])
    tsb = {'sym': symn, 'fermionic': False, 's': [s0, -s0], 'legs': [leg, leg], 'n': list(cfg.sym.zero()) if cfg.sym.NSYM else [],
           'blocks': None, 'dtype': 'real', 'isdiag': False}
    b = cat.build(ctx, tsb, 'b', config=cfg)
    h = b + b.H
    which, D_total, D_block = spec['which'], spec['D_total'], spec['D_block']
    ninf = -float('inf')
    S0, U0 = yastn.linalg.eigh(h, axes=(0, 1), which=which)
    # selections whose surviving values are ALL exactly zero are outside this statement: -inf * max|.| is nan there and the comparison with nan
    # drops the (zero) values -- harmless for the factorisation; assumed away (the stub is a function: these are the values the call below uses)
    for t in S0.get_legs(0).t:
        for x in S0[t + t]:
            ctx.assume(x != 0)         # (every eigenvalue non-zero: then max|.| of any non-empty selection is positive)
    S, U = yastn.linalg.eigh_with_truncation(h, axes=(0, 1), which=which, D_total=D_total, D_block=D_block, tol=ninf, tol_block=ninf)
    def weight(x):
        w = abs(x) if which in ('SM', 'LM') else x
        return -w if which in ('SM', 'SR') else w
    full = {t: list(S0[t + t]) for t in S0.get_legs(0).t}
    kept = {t: list(S[t + t]) for t in S.get_legs(0).t} if S.size else {}
    surv = {t: min(D_block, len(v)) for t, v in full.items()}
    expect_total = min(D_total, sum(surv.values()))
    ctx.check(sum(len(v) for v in kept.values()) == expect_total, 'eigh_limits: number kept == min(D_total, sum over sectors of min(D_block, n_b))',
              ({t: len(v) for t, v in kept.items()}, expect_total, spec['which'], D_block, D_total))
    for t, v in kept.items():
        ctx.check(t in full and len(v) <= surv[t], 'eigh_limits: D_block respected', (t, len(v)))
        ctx.eq([weight(x) for x in v], [weight(x) for x in full[t][:len(v)]], 'eigh_limits: the kept values of a sector are (up to ties in weight) the first ones of its sorted spectrum')
    for t, v in full.items():
        kb = len(kept.get(t, []))
        if kb < surv[t]:
            d = v[kb]                 # best discarded value of this sector that survives the block limit
            for t2, v2 in kept.items():
                if v2:
                    ctx.prove(weight(v2[-1]) >= weight(d), 'eigh_limits: no discarded value that survives its block limit outranks a kept value')
    return {'which': which, 'D_total': D_total, 'D_block': D_block, 'kept': {str(t): len(v) for t, v in kept.items()}}


def k_eigh_trunc(ctx, spec):
    import yastn
    rng = rng_of(spec)
    cfg = cat.make_config(spec['sym'])
    # hermitian matrix h = b + b^H  (so that the eigh contract is satisfiable), zero charge
    symn = spec['sym']
    leg = cat.rand_leg(rng, symn, nsect=(1, 2), dims=(1, 2))
    s0 = rng.choice([1, -1])
    tsb = {'sym': symn, 'fermionic': False, 's': [s0, -s0], 'legs': [leg, leg], 'n': list(cfg.sym.zero()) if cfg.sym.NSYM else [],
           'blocks': None, 'dtype': 'real', 'isdiag': False}
    form = rng.choice(['plain', 'plain', 'meta'])
    if form == 'meta':
        # hermitian rank-4 tensor fused (meta) into a matrix: leg-addressed steps (apply_mask, Uaxis) on meta-fused + lazily transposed factors
        leg2 = cat.rand_leg(rng, symn, nsect=(1, 2), dims=(1,))
        ts4 = {'sym': symn, 'fermionic': False, 's': [s0, s0, -s0, -s0], 'legs': [leg, leg2, leg, leg2], 'n': list(cfg.sym.zero()) if cfg.sym.NSYM else [],
               'blocks': None, 'dtype': 'real', 'isdiag': False}
        b4 = cat.build(ctx, ts4, 'b4', config=cfg)
        if b4.size > 24 or sum(leg['D']) * sum(leg2['D']) > 4:
            form = 'plain'          # (eigenvalue-ordering forks grow factorially with the block dimension: seed 9 exhausted the path budget)
        else:
            h4 = b4 + b4.transpose((2, 3, 0, 1)).conj()
            h = h4.fuse_legs(axes=((0, 1), (2, 3)), mode='meta')
    if form == 'plain':
        b = cat.build(ctx, tsb, 'b', config=cfg)
        h = b + b.H
    which = spec['which']
    D_total = spec['D_total']
    Uaxis = rng.choice([-1, 0, 1])
    S, U = yastn.linalg.eigh_with_truncation(h, axes=(0, 1), which=which, D_total=D_total, Uaxis=Uaxis)
    S0, U0 = yastn.linalg.eigh(h, axes=(0, 1), which=which)
    ctx.check(U.ndim == 2, 'eigh_trunc: U has the fused row leg and the new leg')
    U = U.moveaxis(source=Uaxis, destination=-1)        # the new leg was requested at position Uaxis
    wellformed(ctx, S, 'eigh_trunc:S', check_dense_zero=False)
    wellformed(ctx, U, 'eigh_trunc:U', check_dense_zero=False)
    lS, lU = S.get_legs(0), U.get_legs(-1)
    ctx.check(lS.t == lU.t and lS.D == lU.D and sum(lS.D) <= D_total, 'eigh_trunc:same-indices-removed', (lS, lU))
    legs = h.get_legs(native=True)
    H = reassemble(h, legs)
    ctx.eq(reassemble(U0 @ S0 @ U0.H, legs), H, 'eigh: U S U^H == a')
    # kept + discarded == all
    w = abs(S0) if which in ('SM', 'LM') else S0
    if which in ('SM', 'SR'):
        w = -w
    mk = yastn.linalg.truncation_mask(w, D_total=D_total)
    comp = mk.copy()
    comp._data = ~mk._data
    Fk = reassemble(U @ S @ U.H, legs) if S.size else np.zeros(H.shape, dtype=H.dtype)
    if comp._data.any():
        Sd, Ud = comp.apply_mask(S0, U0, axes=(0, -1))
        Fd = reassemble(Ud @ Sd @ Ud.H, legs)
    else:
        Fd = np.zeros(H.shape, dtype=H.dtype)
    ctx.eq(H - Fk, Fd, 'eigh_trunc: a - U_k S_k U_k^H == U_d S_d U_d^H')
    return {'h': describe(h), 'which': which, 'D_total': D_total}
