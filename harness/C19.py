"""
C19 -- symmetry rules are abelian groups; legs hold canonical charges.

(a) axioms: the REAL `sym_*.fuse` / `add_charges` of all 8 shipped classes are executed on object arrays of z3 Int terms
    (unbounded mathematical integers, symbolic signatures in {-1,+1}); each group axiom is an LIA `unsat` query.
(b) Leg: the REAL `Leg.__post_init__` / `conj` are executed on box-bounded symbolic integers (signature, charges, dims); every
    int()/np.int64 concretisation forks, z3 prunes/enumerates the feasible values => solver-driven exhaustive exploration of the box.
"""
from __future__ import annotations
import itertools
import numpy as np
import z3
from symx import core
from symx.core import SI, SB
from symx.backend import objarray

PROPERTY = 'C19'
SYMS = ['dense', 'Z2', 'Z3', 'U1', 'Z2xU1', 'U1xU1', 'U1xU1xZ2', 'abelian-base']
MOD = {'dense': (), 'Z2': (2,), 'Z3': (3,), 'U1': (0,), 'Z2xU1': (2, 0), 'U1xU1': (0, 0), 'U1xU1xZ2': (0, 0, 2)}
FUNCTIONS = ['yastn.sym.sym_none/Z2/Z3/U1/Z2xU1/U1xU1/U1xU1xZ2.fuse', 'sym_abelian.add_charges', 'sym_abelian.zero',
             'yastn.Leg.__post_init__', 'yastn.Leg.conj', 'yastn.tensor._auxiliary._flatten']
ASSUMPTIONS = ['Python/NumPy int64 charges are modelled as mathematical integers (no overflow; |charge| < 2^62 in any real use)',
               'sym_abelian.add_charges: np.array(..., dtype=np.int64) is replaced in-process by an object-array constructor so charges stay symbolic',
               'Leg part: arguments range over the stated finite box; non-integer arguments are a fixed concrete list']
OUTSIDE = ['Leg arguments outside the box (larger |charges|, more sectors)', 'user-defined symmetry classes']
BOUNDS = {
    'quick': {'axioms': 'unbounded integer charges, symbolic signatures; m <= 4 fused charges, k <= 2 rows, all 7 symmetry classes',
              'leg_box': 's in [-2,2], U(1) charges in [-2,2] (product groups [-1,1]), Z_p charges in [-1,p], dims in [-1,2], <= 2 sectors (1 for 3-component symmetry)'},
    'thorough': {'axioms': 'unbounded integer charges, symbolic signatures; m <= 5 fused charges, k <= 3 rows, all splits',
                 'leg_box': 's in [-2,2], U(1) charges in [-3,3] (product groups [-2,2]), Z_p charges in [-2,p+1], dims in [-1,3], <= 3 sectors (<= 2 for multi-component symmetry)'},
}
OPTS = {'quick': {'max_paths': 40000, 'case_deadline_s': 900}, 'thorough': {'max_paths': 400000, 'case_deadline_s': 3000}}
FLOAT_XVAL = {'quick': 1.0, 'thorough': 0.2}
RULE = ('axiom cases: one per (symmetry class, number of fused charges m, axiom); Leg cases: one per (symmetry, #sectors, signature value, '
        'first-charge slice) box; a case is non-trivial when at least one obligation was decided')


def _sym(name):
    from symx.catalogue import sym_module
    return sym_module(name)


def cases(tier, seed):
    out = []
    mmax = 4 if tier == 'quick' else 5
    for sym in SYMS[:-1]:
        for m in range(1, mmax + 1):
            for ax in ['reference', 'regroup', 'commute', 'identity', 'inverse', 'idempotent', 'add_charges', 'rows']:
                if ax == 'regroup' and m < 2:
                    continue
                out.append({'id': f'axiom-{sym}-m{m}-{ax}', 'kind': 'axiom', 'sym': sym, 'm': m, 'axiom': ax, 'tier': tier, 'seed': seed})
    # Leg boxes
    for sym in SYMS[:-1]:
        nsym = len(MOD[sym])
        maxsect = 2 if (tier == 'quick' or nsym >= 2) else 3
        if nsym >= 2 and tier == 'quick':
            maxsect = 1 if nsym == 3 else 2
        for nsect in range(0 if nsym else 1, maxsect + 1):
            for s in (-2, -1, 0, 1, 2):
                if nsym == 0 or nsect == 0:
                    out.append({'id': f'leg-{sym}-k{nsect}-s{s}', 'kind': 'leg', 'sym': sym, 'nsect': nsect, 's': s, 'slice': None, 'tier': tier, 'seed': seed})
                    continue
                lo, hi = _charge_box(sym, 0, tier)
                for c0 in range(lo, hi + 1):
                    if s not in (-1, 1) and c0 != lo:
                        continue   # invalid signature is rejected before charges are looked at: one slice suffices
                    out.append({'id': f'leg-{sym}-k{nsect}-s{s}-c{c0}', 'kind': 'leg', 'sym': sym, 'nsect': nsect, 's': s, 'slice': c0, 'tier': tier, 'seed': seed})
    # three sectors (repeated charges that are not adjacent, sorting of three): valid dimensions only, narrow charge box
    for sym in ('Z2', 'Z3', 'U1', 'Z2xU1' if tier == 'thorough' else 'Z2'):      # (U1xU1xZ2 with 3 sectors: 9 symbolic charges, > 5.6e4 paths per slice in 50 min: beyond the budget)
        if tier == 'thorough' and len(MOD[sym]) == 1:
            continue     # covered by the full 3-sector box above
        for s in (-1, 1):
            lo, hi = _charge_box(sym, 0, 'quick')
            for c0 in range(lo, hi + 1):
                out.append({'id': f'leg3-{sym}-s{s}-c{c0}', 'kind': 'leg', 'sym': sym, 'nsect': 3, 's': s, 'slice': c0, 'tier': tier, 'seed': seed, 'narrow': True})
    for i in range(len(NONINT)):
        out.append({'id': f'leg-nonint-{i}', 'kind': 'leg_nonint', 'i': i, 'tier': tier, 'seed': seed})
    return out


def _charge_box(sym, comp, tier):
    p = MOD[sym][comp]
    nsym = len(MOD[sym])
    if p == 0:
        if tier == 'quick':
            return (-2, 2) if nsym == 1 else (-1, 1)
        return (-3, 3) if nsym == 1 else (-2, 2)
    return (-1, p) if tier == 'quick' else (-2, p + 1)


def run(ctx, spec):
    return globals()['k_' + spec['kind']](ctx, spec)


# ----------------------------------------------------------------------------------------------------------------------

class _NPShim:
    """numpy as seen from yastn.sym.sym_abelian: array(..., dtype=np.int64) keeps symbolic integers symbolic."""
    def __init__(self):
        self.int64 = np.int64
    def array(self, x, dtype=None):
        flat = list(_flat(x))
        if any(isinstance(v, SI) for v in flat):
            return objarray(flat)
        return np.array(x, dtype=dtype)
    def __getattr__(self, k):
        return getattr(np, k)


def _flat(x):
    if isinstance(x, (list, tuple, np.ndarray)):
        for y in x:
            yield from _flat(y)
    else:
        yield x


def _sig(ctx, name):
    """symbolic signature in {-1,+1}"""
    if ctx.mode == 'float':
        return 1 if ctx.integer(name, 0, 1) else -1
    b = ctx.integer(name, 0, 1)
    return SI(z3.If(b.e == 1, z3.IntVal(1), z3.IntVal(-1)))


def _charges(ctx, name, k, m, nsym):
    vals = [ctx.integer(f'{name}_{i}_{j}_{c}', -50, 50) if ctx.mode == 'float' else ctx.integer(f'{name}_{i}_{j}_{c}')
            for i in range(k) for j in range(m) for c in range(nsym)]
    if ctx.mode == 'float':
        return np.array(vals, dtype=np.int64).reshape(k, m, nsym)
    return objarray(vals, (k, m, nsym))


def _ref(sym, row, sigs, new_s):
    """harness group law on one row: list of charge vectors -> vector"""
    out = []
    for c, p in enumerate(MOD[sym]):
        v = new_s * sum(s * ch[c] for s, ch in zip(sigs, row))
        out.append(v % p if p else v)
    return out


def _canon(ctx, sym, vec, label):
    for c, p in enumerate(MOD[sym]):
        if p:
            ctx.prove((vec[c] >= 0) & (vec[c] < p) if ctx.mode == 'sym' else (0 <= vec[c] < p), f'{label}:canonical-range')


def _sigs_arg(sigs):
    return tuple(sigs) if not any(isinstance(s, SI) for s in sigs) else objarray(list(sigs))


def k_axiom(ctx, spec):
    sym, m, ax = spec['sym'], spec['m'], spec['axiom']
    S = _sym(sym)
    nsym = S.NSYM
    fuse = S.fuse
    if ax == 'reference':
        k = 2
        ch = _charges(ctx, 't', k, m, nsym)
        sigs = [_sig(ctx, f's{j}') for j in range(m)]
        ns = _sig(ctx, 'ns')
        r = fuse(ch, _sigs_arg(sigs), ns)
        ctx.check(tuple(r.shape) == (k, nsym), 'fuse:shape', r.shape)
        for i in range(k):
            row = [[ch[i, j, c] for c in range(nsym)] for j in range(m)]
            ctx.eq(list(r[i]), _ref(sym, row, sigs, ns), 'fuse==reference-law')
            _canon(ctx, sym, list(r[i]), 'fuse')
    elif ax == 'regroup':
        # fuse(fuse(A), fuse(B)) == fuse(A u B) for every split position; leg signatures symbolic, the three
        # intermediate/new signatures enumerated (keeps `sx * (.. mod p)` linear for the solver)
        ch = _charges(ctx, 't', 1, m, nsym)
        sigs = [_sig(ctx, f's{j}') for j in range(m)]
        splits = range(1, m) if spec['tier'] == 'thorough' or m <= 3 else [1, m // 2, m - 1]
        for ns, sx, sy in itertools.product((1, -1), repeat=3):
            whole = fuse(ch, _sigs_arg(sigs), ns)
            for cut in sorted(set(splits)):
                fa = fuse(ch[:, :cut, :], _sigs_arg(sigs[:cut]), sx)
                fb = fuse(ch[:, cut:, :], _sigs_arg(sigs[cut:]), sy)
                both = np.stack([fa, fb], axis=1) if ctx.mode == 'float' else objarray(list(fa.ravel()) + list(fb.ravel()), (1, 2, nsym))
                r = fuse(both, (sx, sy), ns)
                ctx.eq(list(r[0]), list(whole[0]), f'regroup@{cut} ns={ns} sx={sx} sy={sy}')
    elif ax == 'commute':
        ch = _charges(ctx, 't', 1, m, nsym)
        sigs = [_sig(ctx, f's{j}') for j in range(m)]
        ns = _sig(ctx, 'ns')
        whole = fuse(ch, _sigs_arg(sigs), ns)
        perms = list(itertools.permutations(range(m))) if m <= 3 else [tuple(range(m))[::-1], tuple(range(1, m)) + (0,), (1, 0) + tuple(range(2, m))]
        for p in perms:
            r = fuse(ch[:, list(p), :], _sigs_arg([sigs[j] for j in p]), ns)
            ctx.eq(list(r[0]), list(whole[0]), f'commute{p}')
    elif ax == 'identity':
        ch = _charges(ctx, 't', 1, m, nsym)
        sigs = [_sig(ctx, f's{j}') for j in range(m)]
        ns, sz = _sig(ctx, 'ns'), _sig(ctx, 'sz')
        whole = fuse(ch, _sigs_arg(sigs), ns)
        zero = S.zero()
        ctx.check(tuple(zero) == (0,) * nsym, 'zero', zero)
        for pos in range(m + 1):
            if ctx.mode == 'float':
                ext = np.insert(ch, pos, np.array(zero, dtype=np.int64), axis=1)
            else:
                rows = [list(ch[0, j]) for j in range(m)]
                rows.insert(pos, list(zero))
                ext = objarray([v for r_ in rows for v in r_], (1, m + 1, nsym))
            sg = list(sigs)
            sg.insert(pos, sz)
            r = fuse(ext, _sigs_arg(sg), ns)
            ctx.eq(list(r[0]), list(whole[0]), f'zero-identity@{pos}')
    elif ax == 'inverse':
        # t (+) inverse(t) == 0 where inverse is obtained by flipping the signature; and fuse(.., -ns) is the inverse of fuse(.., ns)
        ch = _charges(ctx, 't', 1, m, nsym)
        sigs = [_sig(ctx, f's{j}') for j in range(m)]
        ns = _sig(ctx, 'ns')
        f1 = fuse(ch, _sigs_arg(sigs), ns)
        f2 = fuse(ch, _sigs_arg(sigs), -ns)
        pair = objarray(list(f1.ravel()) + list(f2.ravel()), (1, 2, nsym)) if ctx.mode == 'sym' else np.stack([f1, f2], axis=1)
        r = fuse(pair, (1, 1), 1)
        ctx.eq(list(r[0]), [0] * nsym, 'x+(-x)==0')
        # same leg with both signatures cancels
        dbl = objarray(list(ch.ravel()) * 2, (1, 2 * m, nsym)) if ctx.mode == 'sym' else np.concatenate([ch, ch], axis=1)
        r = fuse(dbl, _sigs_arg(sigs + [-s for s in sigs]), ns)
        ctx.eq(list(r[0]), [0] * nsym, 'sum(s t)+sum(-s t)==0')
    elif ax == 'idempotent':
        if m > 1:
            ctx.skip('single-charge axiom')
        ch = _charges(ctx, 't', 1, 1, nsym)
        s = _sig(ctx, 's')
        for c, p in enumerate(MOD[sym]):
            if p:
                ctx.assume((ch[0, 0, c] >= 0) & (ch[0, 0, c] < p) if ctx.mode == 'sym' else (0 <= ch[0, 0, c] < p))
        r = fuse(ch, _sigs_arg([s]), s)
        ctx.eq(list(r[0]), list(ch[0, 0]), 'canonical-fixed-point')
        r2 = fuse(r.reshape(1, 1, nsym), (1,), 1)
        ctx.eq(list(r2[0]), list(r[0]), 'idempotent')
    elif ax == 'add_charges':
        import sys as _sys
        import yastn.sym.sym_abelian  # noqa
        SA = _sys.modules['yastn.sym.sym_abelian']
        ch = _charges(ctx, 't', 1, m, nsym)
        sigs = [_sig(ctx, f's{j}') for j in range(m)]
        ns = _sig(ctx, 'ns')
        old = SA.np
        if ctx.mode == 'sym':
            SA.np = _NPShim()
        try:
            tup = [tuple(ch[0, j]) for j in range(m)]
            r = S.add_charges(*tup, signatures=_sigs_arg(sigs), new_signature=ns)
            r1 = S.add_charges(*tup)
            r0 = S.add_charges()
        finally:
            SA.np = old
        ctx.check(isinstance(r, tuple) and len(r) == nsym, 'add_charges:type', r)
        row = [[ch[0, j, c] for c in range(nsym)] for j in range(m)]
        ctx.eq(list(r), _ref(sym, row, sigs, ns), 'add_charges==law')
        ctx.eq(list(r1), _ref(sym, row, [1] * m, 1), 'add_charges(defaults)==law')
        ctx.check(tuple(r0) == (0,) * nsym, 'add_charges()==zero', r0)
    elif ax == 'rows':
        k = 2 if spec['tier'] == 'quick' else 3
        ch = _charges(ctx, 't', k, m, nsym)
        sigs = [_sig(ctx, f's{j}') for j in range(m)]
        ns = _sig(ctx, 'ns')
        r = fuse(ch, _sigs_arg(sigs), ns)
        for i in range(k):
            ri = fuse(ch[i:i + 1], _sigs_arg(sigs), ns)
            ctx.eq(list(r[i]), list(ri[0]), f'row-independence@{i}')
    return {'sym': sym, 'm': m, 'axiom': ax}


# ----------------------------------------------------------------------------------------------------------------------

NONINT = [dict(sym='U1', s=1, t=[(0,), (1,)], D=[1.5, 1]), dict(sym='U1', s=1, t=[(0.5,), (1,)], D=[1, 1]),
          dict(sym='U1', s=1.0, t=[(0,), (1,)], D=[2.0, 1]), dict(sym='Z2', s=1, t=[(0,), (1,)], D=[1, 0]),
          dict(sym='U1', s=1, t=[(0,), (1,)], D=[1]), dict(sym='U1xU1', s=-1, t=[(0,), (1,)], D=[1, 1]),
          dict(sym='U1', s=1, t=[0, 1, 2], D=[1, 1, 1]), dict(sym='dense', s=1, t=[], D=[3]), dict(sym='dense', s=1, t=[], D=[3, 1]),
          dict(sym='U1', s='1', t=[(0,)], D=[1]), dict(sym='Z3', s=-1, t=[(2,), (2,)], D=[1, 1]), dict(sym='U1', s=1, t=[(1,), (0,)], D=[True, 2])]
NONINT_OK = [False, False, True, False, False, False, True, True, False, False, False, True]


def k_leg_nonint(ctx, spec):
    import yastn
    a = NONINT[spec['i']]
    S = _sym(a['sym'])
    ok = NONINT_OK[spec['i']]
    try:
        leg = yastn.Leg(S, s=a['s'], t=a['t'], D=a['D'])
        accepted = True
    except yastn.YastnError:
        accepted = False
    ctx.check(accepted == ok, 'Leg:accept-iff-valid(non-integer/shape cases)', (a, accepted))
    if accepted:
        ctx.check(all(type(x) is int for t in leg.t for x in t) and all(type(x) is int for x in leg.D) and type(leg.s) is int,
                  'Leg:stored-python-ints', (leg.t, leg.D, leg.s))
        ctx.check(list(leg.t) == sorted(leg.t), 'Leg:sorted')
    return a


def k_leg(ctx, spec):
    import yastn
    sym, nsect, tier = spec['sym'], spec['nsect'], spec['tier']
    S = _sym(sym)
    nsym = S.NSYM
    s = ctx.integer('s', spec['s'], spec['s'])
    ts, Ds = [], []
    dlo, dhi = (-1, 2) if tier == 'quick' else (-1, 3)
    if spec.get('narrow'):
        dlo, dhi, tier = 1, 2, 'quick'
    for i in range(nsect):
        t = []
        for c in range(nsym):
            lo, hi = _charge_box(sym, c, tier)
            if spec.get('narrow') and MOD[sym][c] == 0:
                lo, hi = -1, 1
            if i == 0 and c == 0 and spec['slice'] is not None:
                lo = hi = spec['slice']
            t.append(ctx.integer(f't{i}_{c}', lo, hi))
        ts.append(tuple(t))
        Ds.append(ctx.integer(f'D{i}', dlo, dhi))
    if nsym == 0:
        ts = ()
    try:
        leg = yastn.Leg(S, s=s, t=tuple(ts), D=tuple(Ds))
        accepted = True
    except yastn.YastnError as e:
        accepted, err = False, str(e)
    # after the constructor ran, every symbol has been concretised on this path: read the values back
    cs = _val(ctx, s)
    cts = [tuple(_val(ctx, x) for x in t) for t in ts]
    cDs = [_val(ctx, d) for d in Ds]
    valid = cs in (-1, 1) and all(d > 0 for d in cDs) and len(set(cts)) == len(cts) and \
        all(all((0 <= x < p) if p else True for x, p in zip(t, MOD[sym])) for t in cts)
    if nsym == 0:
        valid = valid and len(cDs) <= 1
    ctx.check(accepted == valid, 'Leg:accept-iff-valid', (sym, cs, cts, cDs, accepted))
    if accepted:
        exp = sorted(zip(cts, cDs)) if nsym else [((), d) for d in cDs]
        ctx.check(leg.s == cs and type(leg.s) is int, 'Leg:signature-stored')
        ctx.check(list(zip(leg.t, leg.D)) == exp, 'Leg:stored-sorted', (leg.t, leg.D, exp))
        ctx.check(all(type(x) is int for t in leg.t for x in t) and all(type(x) is int for x in leg.D), 'Leg:python-ints')
        cj = leg.conj()
        ctx.check(cj.s == -leg.s and cj.t == leg.t and cj.D == leg.D and cj.sym is leg.sym, 'Leg:conj-is-dual', (cj, leg))
        ctx.check(cj.conj() == leg and hash(cj.conj()) == hash(leg), 'Leg:conj-involution')
        ctx.check(cj != leg, 'Leg:conj-differs')
        ctx.check(leg.tD == dict(exp), 'Leg:tD')
        # re-creating a leg from stored data is accepted and equal (canonical form is a fixed point)
        ctx.check(yastn.Leg(S, s=leg.s, t=leg.t, D=leg.D) == leg, 'Leg:idempotent')
    return {'sym': sym, 's': cs, 't': cts, 'D': cDs, 'accepted': accepted}


def _val(ctx, x):
    if isinstance(x, SI):
        return int(x)      # already fixed on this path, or enumerated now (constructor rejected before looking at it)
    return int(x)
