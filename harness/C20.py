"""
C20 -- lattice geometry is a consistent indexing of the square lattice.

The REAL geometry classes are executed with *symbolic integer* site coordinates / shifts / labels (z3 Int terms): lattice
dims and boundary are enumerated (complete for the property's bound 5x5 x 3 boundaries), sites are UNBOUNDED integers
(open directions: assumed on the lattice), shifts are unbounded or all 8 named directions, pattern labels fork on equality
(=> one path per set partition of the cells).  Every claim is an LIA `unsat` query under the path condition.
"""
from __future__ import annotations
import itertools
import z3
from symx import core
from symx.core import SI, SB

PROPERTY = 'C20'
FUNCTIONS = ['SquareLattice.__init__/nn_site/nn_bond_dirn/f_ordered/site2index/sites/bonds', 'CheckerboardLattice', 'TriangularLattice (both variants)',
             'RectangularUnitcell.__init__/site2index', 'Lattice.__getitem__/__setitem__/move_to_patch/apply_patch/items/shallow_copy']
ASSUMPTIONS = ['site coordinates are mathematical integers', 'for open boundary directions the queried site lies on the lattice (0 <= coordinate < N)',
               'Lattice container part: symbolic sites range over a finite window (hashing a site concretises it)']
OUTSIDE = ['RectangularUnitcell with symbolic labels beyond 3x3 / 2x4 (4x4 has ~1.7e8 equality patterns): only the concrete pattern families listed in bounds',
           'lattice dims > 5x5 (SquareLattice), > 4x4 (TriangularLattice full_patch)']
BOUNDS = {
    'quick': {'SquareLattice': 'all dims 1..5 x 1..5 x {infinite, obc, cylinder}; unbounded symbolic sites; shifts: 8 named directions + unbounded symbolic (dx,dy)',
              'TriangularLattice': 'sqrt3 variant; full_patch dims 1..3 x 1..3 x 3 boundaries', 'CheckerboardLattice': 'the class',
              'RectangularUnitcell': 'symbolic labels (<=4 values) for shapes up to 2x3/3x2; concrete momentum patterns + perturbed ones up to 4x4',
              'container': 'symbolic sites in window [-N-1, 2N] per direction'},
    'thorough': {'SquareLattice': 'as quick', 'TriangularLattice': 'full_patch dims 1..4 x 1..4',
                 'RectangularUnitcell': 'symbolic labels for shapes up to 3x3, 2x4, 4x2; concrete families up to 4x4', 'container': 'as quick'},
}
OPTS = {'quick': {'max_paths': 30000, 'case_deadline_s': 900}, 'thorough': {'max_paths': 400000, 'case_deadline_s': 3000}}
FLOAT_XVAL = {'quick': 1.0, 'thorough': 0.3}
DIRS = {'tl': (-1, -1), 't': (-1, 0), 'tr': (-1, 1), 'l': (0, -1), 'r': (0, 1), 'bl': (1, -1), 'b': (1, 0), 'br': (1, 1)}
OPP = {'tl': 'br', 't': 'b', 'tr': 'bl', 'l': 'r', 'r': 'l', 'bl': 'tr', 'b': 't', 'br': 'tl'}
PER = {'infinite': 'ii', 'obc': 'oo', 'cylinder': 'po'}


def cases(tier, seed):
    out = []
    for nx in range(1, 6):
        for ny in range(1, 6):
            for b in ('infinite', 'obc', 'cylinder'):
                for what in ('nn', 'index', 'lists', 'bond_dirn'):
                    out.append({'id': f'sq-{nx}x{ny}-{b}-{what}', 'kind': 'square', 'geom': ['square', nx, ny, b], 'what': what, 'tier': tier, 'seed': seed})
    out.append({'id': 'order', 'kind': 'order', 'tier': tier, 'seed': seed})
    for what in ('nn', 'index', 'lists', 'bond_dirn'):
        out.append({'id': f'checkerboard-{what}', 'kind': 'square', 'geom': ['checkerboard'], 'what': what, 'tier': tier, 'seed': seed})
        out.append({'id': f'tri-sqrt3-{what}', 'kind': 'square', 'geom': ['tri3'], 'what': what, 'tier': tier, 'seed': seed})
    tmax = 3 if tier == 'quick' else 4
    for nx in range(1, tmax + 1):
        for ny in range(1, tmax + 1):
            for b in ('infinite', 'obc', 'cylinder'):
                for what in ('nn', 'index', 'lists'):
                    out.append({'id': f'trifull-{nx}x{ny}-{b}-{what}', 'kind': 'square', 'geom': ['trifull', nx, ny, b], 'what': what, 'tier': tier, 'seed': seed})
    shapes = [(1, 1), (1, 2), (2, 1), (2, 2), (1, 3), (3, 1), (2, 3), (3, 2), (1, 4), (4, 1)] + ([(3, 3), (2, 4), (4, 2)] if tier == 'thorough' else [])
    for (nx, ny) in shapes:
        out.append({'id': f'ruc-sym-{nx}x{ny}', 'kind': 'ruc_symbolic', 'shape': [nx, ny], 'tier': tier, 'seed': seed})
    for i, pat in enumerate(concrete_patterns(tier)):
        out.append({'id': f'ruc-conc-{i}', 'kind': 'ruc_concrete', 'pattern': pat, 'tier': tier, 'seed': seed})
    for g in ([['square', 2, 2, 'infinite'], ['square', 2, 3, 'obc'], ['square', 3, 2, 'cylinder'], ['square', 1, 1, 'infinite'], ['checkerboard'], ['tri3'],
               ['trifull', 2, 2, 'infinite'], ['ruc', [[0, 1], [1, 0]]], ['ruc', [[0, 1, 2], [1, 2, 0], [2, 0, 1]]]]):
        out.append({'id': f'container-{"-".join(map(str, g))}', 'kind': 'container', 'geom': g, 'tier': tier, 'seed': seed})
    return out


def concrete_patterns(tier):
    pats = []
    for nx in range(1, 5):
        for ny in range(1, 5):
            for k in (1, 2, 3, 4):
                for a in range(k):
                    for b in range(k):
                        if (a * nx) % k == 0 and (b * ny) % k == 0:
                            pats.append([[(a * x + b * y) % k for y in range(ny)] for x in range(nx)])
    # perturbations: change one label
    extra = []
    for p in pats[::3]:
        q = [row[:] for row in p]
        q[-1][-1] = (q[-1][-1] + 1) % 4
        extra.append(q)
    # impurity patterns: one / two cells of a valid pattern relabelled (a label then occurs >= 3 times with one deviating neighbourhood)
    for (nx, ny) in ((3, 3), (2, 4), (4, 2), (3, 4), (4, 4), (1, 4), (2, 3)):
        for base in ([[0] * ny for _ in range(nx)], [[(x + y) % 2 for y in range(ny)] for x in range(nx)]):
            for (i, j) in [(0, 0), (nx // 2, ny // 2), (nx - 1, ny - 1), (nx - 1, 0), (nx // 2, 0)]:
                q = [row[:] for row in base]
                q[i][j] = 2
                extra.append(q)
                q2 = [row[:] for row in q]
                q2[(i + 1) % nx][(j + 1) % ny] = 3
                extra.append(q2)
    allp = []
    for p in pats + extra:
        if p not in allp:
            allp.append(p)
    imp = [p for p in allp if any(2 in row for row in p) and sum(row.count(0) for row in p) >= 3]
    return allp if tier == 'thorough' else allp[::3] + [p for p in imp if p not in allp[::3]]


def make_geom(g):
    import yastn.tn.fpeps as fpeps
    if g[0] == 'square':
        return fpeps.SquareLattice(dims=(g[1], g[2]), boundary=g[3])
    if g[0] == 'checkerboard':
        return fpeps.CheckerboardLattice()
    if g[0] == 'tri3':
        return fpeps.TriangularLattice()
    if g[0] == 'trifull':
        return fpeps.TriangularLattice(dims=(g[1], g[2]), boundary=g[3], full_patch=True)
    if g[0] == 'ruc':
        return fpeps.RectangularUnitcell(pattern=g[1])
    raise KeyError(g)


def run(ctx, spec):
    return globals()['k_' + spec['kind']](ctx, spec)


def _and(ctx, *cs):
    if ctx.mode == 'float':
        return all(bool(c) for c in cs)
    r = cs[0]
    for c in cs[1:]:
        r = r & c
    return r


def _or(ctx, *cs):
    if ctx.mode == 'float':
        return any(bool(c) for c in cs)
    r = cs[0]
    for c in cs[1:]:
        r = r | c
    return r


def _valid_site(ctx, geo, name, window=8, key=False, in_cell_x=False):
    """a symbolic site of the lattice: unbounded in infinite/periodic directions, on the lattice in open directions."""
    per = geo._periodic
    x = ctx.integer(name + 'x', 0, geo.Nx - 1, key=key) if (per[0] == 'o' or (in_cell_x and per[0] == 'p')) else ctx.integer(name + 'x', -window, window, unbounded=True, key=key)
    y = ctx.integer(name + 'y', 0, geo.Ny - 1, key=key) if per[1] == 'o' else ctx.integer(name + 'y', -window, window, unbounded=True, key=key)
    return (x, y)


def _idx_eq(ctx, a, b):
    """symbolic equality of two site2index results (tuples or ints)"""
    if isinstance(a, tuple):
        return _and(ctx, *[x == y for x, y in zip(a, b)])
    return a == b


def _oracle_index(g, site):
    """independent statement of which tensor a site maps to (z3/py expression)"""
    x, y = site
    if g[0] == 'square':
        per = PER[g[3]]
        return (x % g[1] if per[0] in 'ip' else x, y % g[2] if per[1] == 'i' else y)
    if g[0] == 'checkerboard':
        return (x + y) % 2
    if g[0] == 'tri3':
        return (y - x) % 3
    if g[0] == 'trifull':
        return (x % g[1]) * g[2] + y % g[2]
    raise KeyError(g)


def k_square(ctx, spec):
    g = spec['geom']
    geo = make_geom(g)
    what = spec['what']
    per = geo._periodic
    Nx, Ny = geo.Nx, geo.Ny
    if what == 'nn':
        s = _valid_site(ctx, geo, 's')
        shifts = [(d, DIRS[d]) for d in DIRS]
        dx = ctx.integer('dx', -3, 3, unbounded=True)
        dy = ctx.integer('dy', -3, 3, unbounded=True)
        shifts.append(((dx, dy), (dx, dy)))
        for d, (vx, vy) in shifts:
            r = geo.nn_site(s, d)
            X, Y = s[0] + vx, s[1] + vy
            leaves = []
            if per[0] == 'o':
                leaves += [X < 0, X >= Nx]
            if per[1] == 'o':
                leaves += [Y < 0, Y >= Ny]
            if r is None:
                ctx.check(len(leaves) > 0, 'nn_site:None-only-on-open-lattices', (g, d))
                ctx.prove(_or(ctx, *leaves), f'nn_site:None-iff-leaves-open-direction[{d if isinstance(d, str) else "shift"}]')
                continue
            if leaves:
                ctx.prove(~_or(ctx, *leaves) if ctx.mode == 'sym' else not _or(ctx, *leaves), 'nn_site:defined-iff-stays-on-lattice')
            ctx.check(isinstance(r, tuple) and len(r) == 2, 'nn_site:returns-site', r)
            # it is the shifted site, up to the lattice periods
            ctx.prove(_idx_eq(ctx, geo.site2index(r), geo.site2index((X, Y))), 'nn_site:is-shifted-site')
            if per[0] != 'p':
                ctx.prove(_and(ctx, r[0] == X, r[1] == Y), 'nn_site:plain-shift')
            else:
                ctx.prove(_and(ctx, r[0] >= 0 if True else True, r[1] == Y), 'nn_site:cylinder-column-kept')
            # mutual inverse wherever defined
            back = geo.nn_site(r, OPP[d] if isinstance(d, str) else (-vx, -vy))
            ctx.check(back is not None, 'nn_site:inverse-defined', (g, d))
            ctx.prove(_idx_eq(ctx, geo.site2index(back), geo.site2index(s)), 'nn_site:mutually-inverse')
        ctx.check(geo.nn_site(None, 'r') is None, 'nn_site(None)')
    elif what == 'index':
        s = _valid_site(ctx, geo, 's')
        i0 = geo.site2index(s)
        ctx.prove(_idx_eq(ctx, i0, _oracle_index(g, s)), 'site2index==oracle')
        k = ctx.integer('k', -4, 4, unbounded=True)
        l = ctx.integer('l', -4, 4, unbounded=True)
        # invariance under the lattice periods
        if g[0] in ('square', 'trifull'):
            if per[0] in 'ip':
                ctx.prove(_idx_eq(ctx, geo.site2index((s[0] + k * Nx, s[1])), i0), 'site2index:x-period')
            if per[1] == 'i':
                ctx.prove(_idx_eq(ctx, geo.site2index((s[0], s[1] + l * Ny)), i0), 'site2index:y-period')
            # ... and only those: two sites of the lattice with the same index differ by periods
            t = _valid_site(ctx, geo, 't')
            same = _idx_eq(ctx, geo.site2index(t), i0)
            if ctx.mode == 'sym':
                px = ((t[0] - s[0]) % Nx == 0) if per[0] in 'ip' else (t[0] == s[0])
                py = ((t[1] - s[1]) % Ny == 0) if per[1] == 'i' else (t[1] == s[1])
                ctx.prove(SB(same.c == z3.And(px.c, py.c)), 'site2index:same-index-iff-differ-by-periods')
            else:
                px = ((t[0] - s[0]) % Nx == 0) if per[0] in 'ip' else (t[0] == s[0])
                py = ((t[1] - s[1]) % Ny == 0) if per[1] == 'i' else (t[1] == s[1])
                ctx.prove(bool(same) == (px and py), 'site2index:same-index-iff-differ-by-periods')
        elif g[0] == 'checkerboard':
            ctx.prove(_idx_eq(ctx, geo.site2index((s[0] + k + l, s[1] + k - l)), i0), 'checkerboard:periods (1,1),(1,-1)')
            ctx.prove(~_idx_eq(ctx, geo.site2index((s[0] + 1, s[1])), i0) if ctx.mode == 'sym' else geo.site2index((s[0] + 1, s[1])) != i0, 'checkerboard:(1,0) is not a period')
        elif g[0] == 'tri3':
            ctx.prove(_idx_eq(ctx, geo.site2index((s[0] + k + 3 * l, s[1] + k)), i0), 'tri3:periods (1,1),(3,0)')
            ctx.prove(~_idx_eq(ctx, geo.site2index((s[0], s[1] + 1)), i0) if ctx.mode == 'sym' else geo.site2index((s[0], s[1] + 1)) != i0, 'tri3:(0,1) is not a period')
        ctx.check(geo.site2index(None) is None if g[0] == 'square' else True, 'site2index(None)')
    elif what == 'lists':
        sites = list(geo.sites())
        ctx.check(list(geo.sites(reverse=True)) == sites[::-1], 'sites(reverse)')
        idx = [geo.site2index(s) for s in sites]
        ctx.check(len(set(idx)) == len(idx), 'sites:each-unique-site-once', idx)
        ctx.check(all(geo.f_ordered(a, b) for a, b in zip(sites, sites[1:])), 'sites:fermionic-order', sites)
        # every site of the lattice is represented in sites()
        s = _valid_site(ctx, geo, 's')
        i0 = geo.site2index(s)
        ctx.prove(_or(ctx, *[_idx_eq(ctx, i0, i) for i in idx]), 'sites:cover-every-lattice-site')
        # bonds
        bh, bv = list(geo.bonds('h')), list(geo.bonds('v'))
        ctx.check(list(geo.bonds()) == bh + bv + (list(geo.bonds('d')) if g[0] in ('tri3', 'trifull') else []), 'bonds():h-then-v(-then-d)')
        allb = list(geo.bonds())
        ctx.check(list(geo.bonds(reverse=True)) == [b for grp in ([geo.bonds('d')] if g[0] in ('tri3', 'trifull') else []) + [bv, bh] for b in list(grp)[::-1]],
                  'bonds(reverse)')
        for dirn, bl, name in (('lr', bh, 'r'), ('tb', bv, 'b')):
            for b in bl:
                ctx.check(geo.nn_bond_dirn(*b) == dirn and geo.nn_bond_dirn(b) == dirn, f'bonds:{dirn}-nearest-neighbours-lattice-ordered', b)
                seam = per[0] == 'p' and dirn == 'tb' and b[0][0] == Nx - 1     # cylinder seam: wraps, cannot be f-ordered
                ctx.check(geo.f_ordered(*b) or seam, 'bonds:fermionically-ordered', b)
                if seam:
                    ctx.check(tuple(b[1]) == (0, b[0][1]), 'bonds:seam-wraps-to-first-row', b)
                ctx.check(geo.nn_site(b[0], name) == b[1], 'bonds:second-site-is-neighbour', b)
            keys = [(geo.site2index(b[0]), geo.site2index(b[1])) for b in bl]
            ctx.check(len(set(keys)) == len(keys), f'bonds:{dirn}-each-unique-bond-once', keys)
            # coverage: the bond from any lattice site to its right/bottom neighbour is listed (mod indexing)
            r = geo.nn_site(s, name)
            if r is not None:
                ir = geo.site2index(r)
                ctx.prove(_or(ctx, *[_and(ctx, _idx_eq(ctx, i0, k0), _idx_eq(ctx, ir, k1)) for k0, k1 in keys]) if keys else False,
                          f'bonds:{dirn}-cover-every-lattice-bond')
        if g[0] in ('tri3', 'trifull'):
            for b in geo.bonds('d'):
                if b[0] is None or b[1] is None:
                    continue
                ctx.check(geo.nn_site(b[0], 'tr') == b[1] and geo.nn_site(b[1], 'bl') == b[0], 'bonds:d-joins-anti-diagonal-neighbours', b)
    elif what == 'bond_dirn':
        import yastn
        # on a cylinder nn_site wraps only when leaving [0,Nx): the mutual test is meant for sites of the cell
        s = _valid_site(ctx, geo, 's', in_cell_x=True)
        t = _valid_site(ctx, geo, 't')
        try:
            d = geo.nn_bond_dirn(s, t)
        except yastn.YastnError:
            d = None
        # oracle: t is the r/b/l/t neighbour of s (with cylinder wrap in x)
        def is_nb(vx, vy):
            X, Y = s[0] + vx, s[1] + vy
            if per[0] == 'p':
                return _and(ctx, (t[0] - X) % Nx == 0, t[1] == Y, t[0] >= 0, t[0] < Nx) if Nx > 0 else False
            return _and(ctx, t[0] == X, t[1] == Y)
        exp = {'lr': is_nb(0, 1), 'tb': is_nb(1, 0), 'rl': is_nb(0, -1), 'bt': is_nb(-1, 0)}
        if d is None:
            for k, e in exp.items():
                ctx.prove(~e if ctx.mode == 'sym' else not e, f'nn_bond_dirn:raises-only-for-non-neighbours[{k}]')
        else:
            ctx.prove(exp[d], f'nn_bond_dirn:{d}-is-correct')
    return {'geom': g, 'what': what}


def k_order(ctx, spec):
    import yastn.tn.fpeps as fpeps
    geo = fpeps.SquareLattice(dims=(3, 3), boundary='infinite')
    pts = [(ctx.integer(f'x{i}', -9, 9, unbounded=True), ctx.integer(f'y{i}', -9, 9, unbounded=True)) for i in range(3)]
    a, b, c = pts
    f = geo.f_ordered
    fab, fba, fbc, fac = f(a, b), f(b, a), f(b, c), f(a, c)
    ctx.prove(_or(ctx, fab, fba), 'f_ordered:total')
    same = _and(ctx, a[0] == b[0], a[1] == b[1])
    if ctx.mode == 'sym':
        ctx.prove(SB(z3.Implies(z3.And(fab.c, fba.c), same.c)), 'f_ordered:antisymmetric')
        ctx.prove(SB(z3.Implies(z3.And(fab.c, fbc.c), fac.c)), 'f_ordered:transitive')
        ctx.prove(SB(z3.Implies(same.c, fab.c)), 'f_ordered:reflexive')
        # compatible with the column-major listing used by sites(): (x,y) before (x',y') iff y<y' or (y==y' and x<=x')
        ctx.prove(SB(fab.c == z3.Or(a[1].e < b[1].e, z3.And(a[1].e == b[1].e, a[0].e <= b[0].e))), 'f_ordered:column-major')
    else:
        ctx.prove((not (fab and fba)) or same, 'f_ordered:antisymmetric')
        ctx.prove((not (fab and fbc)) or fac, 'f_ordered:transitive')
        ctx.prove(fab == (a[1] < b[1] or (a[1] == b[1] and a[0] <= b[0])), 'f_ordered:column-major')
    return {}


# ----------------------------------------------------------------------------------------------------------------------

def k_ruc_symbolic(ctx, spec):
    import yastn
    import yastn.tn.fpeps as fpeps
    nx, ny = spec['shape']
    lab = [[ctx.integer(f'L{i}_{j}', 0, 3) for j in range(ny)] for i in range(nx)]
    as_dict = (nx * ny) % 2 == 0
    try:
        geo = fpeps.RectangularUnitcell(pattern={(i, j): lab[i][j] for i in range(nx) for j in range(ny)} if as_dict else lab)
        accepted = True
    except yastn.YastnError:
        accepted = False
    cells = [(i, j) for i in range(nx) for j in range(ny)]
    def L(i, j):
        return lab[i % nx][j % ny]
    def nb_equal(p, q):
        return _and(ctx, *[L(p[0] + dx, p[1] + dy) == L(q[0] + dx, q[1] + dy) for dx, dy in ((-1, 0), (0, -1), (1, 0), (0, 1))])
    conflicts = []
    for p, q in itertools.combinations(cells, 2):
        same = L(*p) == L(*q)
        ne = nb_equal(p, q)
        conflicts.append(_and(ctx, same, ~ne if ctx.mode == 'sym' else not ne))
    if accepted:
        for c in conflicts:
            ctx.prove(~c if ctx.mode == 'sym' else not c, 'RectangularUnitcell:accepted=>equal-labels-have-equal-neighbourhoods')
        sites = list(geo.sites())
        ctx.check(sites == sorted(sites), 'ruc:sites-sorted')
        labs = [geo.site2index(s) for s in sites]
        for u, v in itertools.combinations(labs, 2):
            ctx.prove(u != v, 'ruc:unique-sites-have-distinct-labels')
        for (i, j) in cells:
            ctx.prove(_or(ctx, *[lab[i][j] == u for u in labs]), 'ruc:every-label-has-a-unique-site')
            # listed site is the smallest cell carrying its label
        for s, u in zip(sites, labs):
            for (i, j) in cells:
                if (i, j) < tuple(s):
                    ctx.prove(lab[i][j] != u, 'ruc:unique-site-is-first-occurrence')
        ctx.check((geo.Nx, geo.Ny) == (nx, ny), 'ruc:dims')
        for b, name in [(x, 'r') for x in geo.bonds('h')] + [(x, 'b') for x in geo.bonds('v')]:
            ctx.check(b[0] in sites and tuple(b[1]) == tuple(geo.nn_site(b[0], name)), 'ruc:bonds-from-unique-sites', b)
        ctx.check(len(geo.bonds('h')) == len(sites) == len(geo.bonds('v')), 'ruc:one-h-and-v-bond-per-unique-site')
        # indexing: periodic with the cell, equals the given label
        x = ctx.integer('qx', -7, 7, unbounded=True, key=True)
        y = ctx.integer('qy', -7, 7, unbounded=True, key=True)
        got = geo.site2index((x, y))
        xi, yi = int(x % nx), int(y % ny)
        ctx.prove(got == lab[xi][yi], 'ruc:site2index==label-of-cell')
    else:
        ctx.prove(_or(ctx, *conflicts) if conflicts else False, 'RectangularUnitcell:rejected=>some-label-has-two-neighbourhoods')
    return {'shape': (nx, ny), 'accepted': accepted}


def k_ruc_concrete(ctx, spec):
    import yastn
    import yastn.tn.fpeps as fpeps
    pat = spec['pattern']
    nx, ny = len(pat), len(pat[0])
    def L(i, j):
        return pat[i % nx][j % ny]
    ok = True
    for p, q in itertools.combinations([(i, j) for i in range(nx) for j in range(ny)], 2):
        if L(*p) == L(*q) and any(L(p[0] + dx, p[1] + dy) != L(q[0] + dx, q[1] + dy) for dx, dy in ((-1, 0), (0, -1), (1, 0), (0, 1))):
            ok = False
    try:
        geo = fpeps.RectangularUnitcell(pattern=pat)
        accepted = True
    except yastn.YastnError:
        accepted = False
    ctx.check(accepted == ok, 'RectangularUnitcell:accept-iff-consistent-neighbourhoods', pat)
    if accepted:
        x = ctx.integer('qx', -9, 9, unbounded=True, key=True)
        y = ctx.integer('qy', -9, 9, unbounded=True, key=True)
        got = geo.site2index((x, y))
        xi, yi = int(x % nx), int(y % ny)       # concretises the residues only; x, y themselves stay unbounded
        ctx.check(got == L(xi, yi), 'ruc:site2index periodic')
        labs = [geo.site2index(s) for s in geo.sites()]
        ctx.check(sorted(labs) == sorted(set(v for row in pat for v in row)), 'ruc:unique-sites<->labels', labs)
        for d in DIRS:
            r = geo.nn_site((x, y), d)
            ctx.check(geo.site2index(r) == L(xi + DIRS[d][0], yi + DIRS[d][1]), 'ruc:neighbour-label')
    return {'pattern': pat, 'accepted': accepted}


class _Obj:
    def __init__(self, tag):
        self.tag = tag
    def shallow_copy(self):
        return _Obj(('copy', self.tag))


def k_container(ctx, spec):
    import yastn.tn.fpeps as fpeps
    geo = make_geom(spec['geom'])
    net = fpeps.Lattice(geo)
    objs = {}
    for s in geo.sites():
        o = _Obj(geo.site2index(s))
        net[s] = o
        objs[geo.site2index(s)] = o
    Nx, Ny = geo.Nx, geo.Ny
    per = geo._periodic
    lo = lambda N, p: 0 if p == 'o' else -N - 1
    hi = lambda N, p: N - 1 if p == 'o' else 2 * N
    x = ctx.integer('x', lo(Nx, per[0]), hi(Nx, per[0]), key=True)
    y = ctx.integer('y', lo(Ny, per[1]), hi(Ny, per[1]), key=True)
    site = (x, y)
    got = net[site]
    cx, cy = int(x), int(y)
    idx = geo.site2index((cx, cy))
    ctx.check(got is objs[idx], 'Lattice:getitem-consistent-with-site2index', (cx, cy))
    # set through an equivalent site, read through the original
    new = _Obj('new')
    net[site] = new
    for s in geo.sites():
        want = new if geo.site2index(s) == idx else objs[geo.site2index(s)]
        ctx.check(net[s] is want, 'Lattice:setitem-hits-exactly-one-unique-tensor', (s, cx, cy))
    # patch: only the patched coordinate changes, equivalent sites keep the stored tensor until apply_patch
    net.move_to_patch([(cx, cy)])
    p = net[(cx, cy)]
    ctx.check(p is not new and p.tag == ('copy', 'new'), 'Lattice:patch-holds-shallow-copy')
    other = _Obj('patched')
    net[(cx, cy)] = other
    ctx.check(net[(cx, cy)] is other, 'Lattice:setitem-on-patched-site-goes-to-patch')
    shifted = (cx + (Nx if per[0] in 'ip' and spec['geom'][0] != 'checkerboard' else 0), cy)
    if shifted != (cx, cy) and geo.site2index(shifted) == idx:
        ctx.check(net[shifted] is new, 'Lattice:equivalent-site-not-in-patch-sees-stored-tensor')
    net.apply_patch()
    ctx.check(net._patch == {}, 'Lattice:apply_patch-empties-patch')
    for s in geo.sites():
        want = other if geo.site2index(s) == idx else objs[geo.site2index(s)]
        ctx.check(net[s] is want, 'Lattice:apply_patch-writes-through', (s,))
    ctx.check([s for s, _ in net.items()] == list(geo.sites()), 'Lattice:items-follow-sites')
    sc = net.shallow_copy()
    ctx.check(all(sc[s] is net[s] for s in geo.sites()), 'Lattice:shallow_copy-shares-tensors')
    sc[(cx, cy)] = _Obj('z')
    ctx.check(net[(cx, cy)] is other, 'Lattice:shallow_copy-independent-container')
    return {'geom': spec['geom'], 'site': (cx, cy)}
