"""
C06 -- MPS/MPO algebra agrees with the states and operators it represents.

Site tensors of small chains are solver variables (all sites for N<=4, a window of sites for N=5..7, the rest fixed small rationals);
the real mps.add / scalar multiplication / multiply (@) / conj / transpose / reverse_sites / product states / to_tensor / to_matrix and the
Env2/Env3 recursions behind measure_overlap / measure_mpo (single MPO, sum of MPOs, periodic MPO) are executed; z3 decides equality with
plain NumPy arithmetic on the independently re-assembled dense operands (polynomial identities).
"""
from __future__ import annotations
import itertools
import numpy as np
from fractions import Fraction
from symx import catalogue as cat
from symx import dense
from symx.dense import reassemble
from .common import rng_of
from .C01 import hash_seed
from .mpscommon import FAM_SYM, make_ops, sym_chain, dense_chain, mpo_apply, mpo_mul, charges_for

PROPERTY = 'C06'
FUNCTIONS = ['mps.add / __add__ / __sub__', '__mul__/__rmul__/__neg__/__truediv__', 'multiply / @ (MPO.MPS, MPO.MPO)', 'conj/transpose/conjugate_transpose/H/T/reverse_sites',
             'product_mps/product_mpo', 'to_tensor/to_matrix', 'measure_overlap/measure_mpo/vdot', 'Env (Env2, Env_mps_mpo_mps, Env_sum, Env_mps_mpopbc_mps) setup/measure',
             'MpoPBC.to_tensor']
ASSUMPTIONS = ['exact arithmetic', 'N<=4: all site tensors symbolic with bond dimension <=2 (N<=3: <=3); N=5..7: two symbolic sites, the rest fixed small rationals']
OUTSIDE = ['multiplication by a general symbolic complex scalar (modulus = symbolic sqrt; only z in {1j,-2j,-4,0j} and symbolic real scalars)', 'division by a symbolic scalar (concrete divisors 3/2, 4, 1/4)', 'mps_from_tensor, zipper, compression_ (chains of truncated SVD/QR/variational sweeps: not encodable beyond the single-step lemmas of C08)', 'fully symbolic chains with N >= 5']
BOUNDS = {'quick': {'N': '1..7', 'families': 'spin-1/2, spin-1, spinless, spinful fermions, qudit in every supported symmetry', 'D': '<=2 (3 for N<=3)',
                    'expression depth': 2}, 'thorough': {'as quick': 'more structures'}}
OPTS = {'quick': {'max_paths': 100, 'query_timeout_ms': 120000}, 'thorough': {'max_paths': 100, 'query_timeout_ms': 300000}}
KINDS = ['add', 'scalar', 'multiply', 'unary', 'product', 'overlap', 'mpo_measure', 'pbc', 'expression']


def cases(tier, seed):
    out = []
    reps = 1 if tier == 'quick' else 30
    for rep in range(reps):
        fac = {'famsym': list(range(len(FAM_SYM))), 'N': [1, 2, 3, 4, 5, 7], 'kind': KINDS, 'dtype': ['real', 'complex'], 'charge': ['zero', 'any']}
        for i, row in enumerate(cat.covering(fac, seed=seed * 37 + rep, strength=2)):
            c = dict(row)
            c.update(tier=tier, id=f'{row["kind"]}-{rep}-{i}', seed=hash_seed(seed, 'C06', rep, i))
            out.append(c)
    # k_from_tensor (mps_from_tensor through the SVD contract stub) is NOT registered: decided in seconds for blocks up to 2x2, but larger
    # blocks time out or exhaust the path budget (sign / ordering forks of chained SVDs) -- an unstable check is no check; kept for dbg.py
    return out


def run(ctx, spec):
    from .mpscommon import OracleLimit
    try:
        return globals()['k_' + spec['kind']](ctx, spec)
    except OracleLimit as e:
        ctx.skip(f'oracle limit: {e}')


def _setup(ctx, spec):
    import yastn
    rng = rng_of(spec)
    fam, symn = FAM_SYM[spec['famsym']]
    cfg0 = cat.make_config('dense')
    ops = make_ops(fam, symn, backend=cfg0.backend)
    N = spec['N']
    d = sum(ops.space().D)
    heavy = spec['kind'] in ('multiply', 'mpo_measure', 'expression', 'pbc')
    # the dense oracle has d^N (MPS) / d^(2N) (MPO) entries, each a polynomial: cap the chain length accordingly (stated bound)
    while N > 1 and (d ** (2 * N) > 300 if heavy else d ** N > 600):
        N -= 1
    D = 3 if (N <= 2 and d == 2 and not heavy) else 2
    # size cliff of z3 on high-degree polynomial identities: all sites symbolic only for small dense dimension, otherwise two symbolic
    # sites (the same positions in every object of the case), the rest fixed small rationals (partial concretisation; stated bound)
    full = (d ** N <= 8) if heavy else (d ** N <= 16)
    symbolic = None if full else set(rng.sample(range(N), min(2, N)))
    n = 'any' if spec['charge'] == 'any' else (None if ops.config.sym.NSYM == 0 else 'any')
    return rng, ops, N, D, symbolic, n


def _mk(ctx, rng, ops, N, name, obj, D, n, dtype, symbolic, factor=False):
    f = ctx.scalar(f'{name}_factor', 'real', lo=0.25, hi=4) if factor else None
    return sym_chain(ctx, rng, ops, N, name, obj=obj, D=D, n=n, dtype=dtype, symbolic_sites=symbolic, factor=f)


def _same_charge(ctx, rng, ops, N, a, name, D, dtype, symbolic, factor=False):
    """another MPS in the same charge sector as a"""
    n0 = a.A[0].get_legs(0).t[0] if ops.config.sym.NSYM else None
    return _mk(ctx, rng, ops, N, name, 'mps', D, n0, dtype, symbolic, factor)


def k_add(ctx, spec):
    import yastn.tn.mps as mps
    rng, ops, N, D, symb, n = _setup(ctx, spec)
    ph = ops.space()
    a = _mk(ctx, rng, ops, N, 'a', 'mps', D, n, spec['dtype'], symb, factor=True)
    b = _same_charge(ctx, rng, ops, N, a, 'b', D, spec['dtype'], symb, factor=True)
    A, B = dense_chain(a, ph), dense_chain(b, ph)
    ctx.eq(dense_chain(a + b, ph), A + B, 'a + b')
    ctx.eq(dense_chain(a - b, ph), A - B, 'a - b')
    x, y = ctx.scalar('x', spec['dtype']), ctx.scalar('y', 'real')
    c = mps.add(a, b, a, amplitudes=[x, y, 2])
    ctx.eq(dense_chain(c, ph), x * A + y * B + 2 * A, 'add(amplitudes)')
    ctx.check(c.N == N and c.nr_phys == 1 and c.pC is None, 'add:shape')
    # MPO addition
    if N <= 3 and sum(ph.D) ** (2 * N) <= 1100:
        H1 = _mk(ctx, rng, ops, N, 'h', 'mpo', 2, None, 'real', symb)
        H2 = _mk(ctx, rng, ops, N, 'g', 'mpo', 2, None, 'real', symb)
        ctx.eq(dense_chain(H1 + H2, ph), dense_chain(H1, ph) + dense_chain(H2, ph), 'H1 + H2')
    return {'N': N, 'fam': FAM_SYM[spec['famsym']]}


def k_scalar(ctx, spec):
    rng, ops, N, D, symb, n = _setup(ctx, spec)
    ph = ops.space()
    a = _mk(ctx, rng, ops, N, 'a', 'mps', D, n, spec['dtype'], symb, factor=True)
    A = dense_chain(a, ph)
    from fractions import Fraction
    # (x/|x|)*|x| is a rational-function identity with an ite: decided by the solver only for the smallest chains; larger chains use
    # concrete scalars of both signs and zero (then everything is a polynomial identity closed by the rewriter)
    xs = [ctx.scalar('x', 'real')] if sum(ph.D) ** N <= 4 else []
    xs += [Fraction(-3, 2), 2, 0, Fraction(1, 4)]
    for x in xs:
        xf = x if ctx.mode == 'sym' or not isinstance(x, Fraction) else float(x)
        r = xf * a
        ctx.eq(dense_chain(r, ph), xf * A, f'x * a (x = {x if not hasattr(x, "e") else "symbolic real"})')
        ctx.prove(r.factor >= 0, 'factor stays non-negative')
        ctx.eq(dense_chain(a * xf, ph), xf * A, 'a * x')
    ctx.eq(dense_chain(-a, ph), -A, '-a')
    from fractions import Fraction
    for y in (Fraction(3, 2), 4, 0.25):      # division by a symbolic number leaves rational functions the rewriter cannot normalise
        ctx.eq(dense_chain(a / y, ph), A / y if ctx.mode == 'sym' else A / float(y), f'a / {y}')
    if spec['dtype'] == 'complex':
        # complex scalars: |z| enters through a symbolic sqrt and a division (z/|z|)*|z|, a rational-function identity the solver does not
        # finish; the complex path is exercised with axis-aligned z whose modulus is an exact power of two (no float rounding in z/|z|)
        for z in (1j, -2j, complex(-4, 0), 0j):
            ctx.eq(dense_chain(z * a, ph), z * A, f'z * a (z = {z})')
        # division by complex numbers (axis-aligned: z/|z| exact): a / z == (1/z) a, i.e. the CONJUGATE phase
        for z in (2j, -4j, complex(-2, 0)):
            zi = {2j: -0.5j, -4j: 0.25j, complex(-2, 0): complex(-0.5, 0)}[z]
            ctx.eq(dense_chain(a / z, ph), zi * A, f'a / z (z = {z})')
    return {'N': N, 'fam': FAM_SYM[spec['famsym']]}


def k_multiply(ctx, spec):
    import yastn.tn.mps as mps
    rng, ops, N, D, symb, n = _setup(ctx, spec)
    if N > 5:
        N = 5
        symb = set(rng.sample(range(N), 2))
    ph = ops.space()
    a = _mk(ctx, rng, ops, N, 'a', 'mps', 2, n, spec['dtype'], symb, factor=True)
    H = _mk(ctx, rng, ops, N, 'h', 'mpo', 2, None, 'real', symb, factor=True)
    if sum(t.size for t in a.A.values()) + sum(t.size for t in H.A.values()) > 400:
        ctx.skip('structure too large')
    A, Hd = dense_chain(a, ph), dense_chain(H, ph)
    Ha = H @ a
    ctx.check(Ha.nr_phys == 1 and Ha.N == N, 'H@a is an MPS')
    ctx.eq(dense_chain(Ha, ph), mpo_apply(Hd, A, N), 'H @ a')
    ctx.eq(dense_chain(mps.multiply(H, a, mode='meta' if rng.random() < 0.5 else 'hard'), ph), mpo_apply(Hd, A, N), 'multiply(H, a, mode)')
    if N <= 3:
        G = _mk(ctx, rng, ops, N, 'g', 'mpo', 2, None, 'real', symb)
        HG = H @ G
        ctx.check(HG.nr_phys == 2, 'H@G is an MPO')
        ctx.eq(dense_chain(HG, ph), mpo_mul(Hd, dense_chain(G, ph), N), 'H @ G')
    return {'N': N, 'fam': FAM_SYM[spec['famsym']]}


def k_unary(ctx, spec):
    rng, ops, N, D, symb, n = _setup(ctx, spec)
    ph = ops.space()
    a = _mk(ctx, rng, ops, N, 'a', 'mps', D, n, spec['dtype'], symb, factor=True)
    A = dense_chain(a, ph)
    ac = a.conj()
    ctx.eq(dense_chain(ac, ph.conj()), dense.conj(A), 'conj(mps)')
    ar = a.reverse_sites()
    ctx.eq(dense_chain(ar, ph), A.transpose(list(range(N))[::-1]), 'reverse_sites(mps)')
    if N <= 4 and sum(ph.D) ** (2 * N) <= 1100:
        H = _mk(ctx, rng, ops, N, 'h', 'mpo', 2, None, spec['dtype'], symb, factor=True)
        Hd = dense_chain(H, ph)
        swap = [x for n_ in range(N) for x in (2 * n_ + 1, 2 * n_)]
        ctx.eq(dense_chain(H.transpose(), ph.conj()), Hd.transpose(swap), 'transpose(mpo)')
        ctx.eq(dense_chain(H.T, ph.conj()), Hd.transpose(swap), 'mpo.T')
        ctx.eq(dense_chain(H.conj(), ph.conj()), dense.conj(Hd), 'conj(mpo)')
        ctx.eq(dense_chain(H.conjugate_transpose(), ph), dense.conj(Hd.transpose(swap)), 'conjugate_transpose(mpo)')
        ctx.eq(dense_chain(H.H, ph), dense.conj(Hd.transpose(swap)), 'mpo.H')
        rev = [x for n_ in range(N - 1, -1, -1) for x in (2 * n_, 2 * n_ + 1)]
        ctx.eq(dense_chain(H.reverse_sites(), ph), Hd.transpose(rev), 'reverse_sites(mpo)')
        # to_tensor / to_matrix describe the same array
        T = H.to_tensor()
        lt = [l for _ in range(N) for l in (ph, ph.conj())]
        ctx.eq(reassemble(T, lt), Hd, 'mpo.to_tensor')
    T = a.to_tensor()
    ctx.eq(reassemble(T, [ph] * N), A, 'mps.to_tensor')
    M = a.to_matrix()
    ctx.check(M.ndim == 1, 'to_matrix(mps) is a vector')
    ctx.eq(reassemble(M.unfuse_legs(axes=0) if N > 1 else M, [ph] * N), A, 'mps.to_matrix (un-fused)')
    return {'N': N, 'fam': FAM_SYM[spec['famsym']]}


def k_product(ctx, spec):
    import yastn
    import yastn.tn.mps as mps
    rng, ops, N, D, symb, n = _setup(ctx, spec)
    N = min(N, 5)
    ph = ops.space()
    cfg = ops.config
    # vectors with symbolic entries in a single charge sector each
    vecs = []
    for k in range(N):
        t = rng.choice(ph.t)
        v = yastn.Tensor(config=cfg, s=(1,), n=t)
        v.set_block(ts=t, Ds=(ph[t],), val='zeros')
        vecs.append(ctx.fill(v, f'v{k}', spec['dtype']))
    psi = mps.product_mps(vecs)
    ref = reassemble(vecs[0], [ph])
    for v in vecs[1:]:
        ref = np.multiply.outer(ref, reassemble(v, [ph]))
    ctx.eq(dense_chain(psi, ph), ref, 'product_mps == outer product')
    ctx.check(all(sum(psi[k].get_legs(0).D) == 1 and sum(psi[k].get_legs(2).D) == 1 for k in range(N)), 'product_mps: bond dimension one')
    # product_mpo from one operator repeated
    O = ops.I().copy()
    O = ctx.fill(O, 'op', 'real')
    P = mps.product_mpo(O, N=min(N, 3))
    Od = reassemble(O, [ph, ph.conj()])
    ref = Od
    for _ in range(min(N, 3) - 1):
        ref = np.multiply.outer(ref, Od)
    ctx.eq(dense_chain(P, ph), ref, 'product_mpo == outer product')
    return {'N': N, 'fam': FAM_SYM[spec['famsym']]}


def k_overlap(ctx, spec):
    import yastn.tn.mps as mps
    rng, ops, N, D, symb, n = _setup(ctx, spec)
    ph = ops.space()
    a = _mk(ctx, rng, ops, N, 'a', 'mps', D, n, spec['dtype'], symb, factor=True)
    b = _same_charge(ctx, rng, ops, N, a, 'b', D, spec['dtype'], symb, factor=True)
    A, B = dense_chain(a, ph), dense_chain(b, ph)
    ctx.eq([mps.measure_overlap(a, b)], [(dense.conj(A) * B).sum()], '<a|b>')
    ctx.eq([mps.vdot(a, b)], [(dense.conj(A) * B).sum()], 'vdot(a, b)')
    ctx.eq([mps.measure_overlap(a, a)], [(dense.conj(A) * A).sum()], '<a|a>')
    # different charge sectors are orthogonal
    if ops.config.sym.NSYM and N <= 4:
        chs = [c for c in charges_for(ops, N) if c != a.A[0].get_legs(0).t[0]]
        if chs:
            try:
                c = _mk(ctx, rng, ops, N, 'c', 'mps', 2, rng.choice(chs), 'real', symb)
                ctx.eq([mps.measure_overlap(a, c)], [0], '<a|c> == 0 across charge sectors')
            except Exception as e:
                if type(e).__name__ not in ('Skip',):
                    raise
    if N <= 3 and sum(ph.D) ** (2 * N) <= 300:
        H = _mk(ctx, rng, ops, N, 'h', 'mpo', 2, None, 'real', symb)
        G = _mk(ctx, rng, ops, N, 'g', 'mpo', 2, None, 'real', symb)
        Hd, Gd = dense_chain(H, ph), dense_chain(G, ph)
        ctx.eq([mps.measure_overlap(H, G)], [(dense.conj(Hd) * Gd).sum()], '<H|G> (MPO overlap = Tr H^dagger G)')
        # mixed dtypes: complex bra with real ket and vice versa (the conjugation of the bra must not depend on what was contracted before)
        Hc = _mk(ctx, rng, ops, N, 'hc', 'mpo', 2, None, 'complex', symb)
        Hcd = dense_chain(Hc, ph)
        ctx.eq([mps.measure_overlap(Hc, G)], [(dense.conj(Hcd) * Gd).sum()], '<Hc|G> complex bra MPO, real ket MPO')
        ctx.eq([mps.measure_overlap(G, Hc)], [(dense.conj(Gd) * Hcd).sum()], '<G|Hc> real bra MPO, complex ket MPO')
        ctx.eq([mps.vdot(Hc, G)], [(dense.conj(Hcd) * Gd).sum()], 'vdot(Hc, G)')
    if spec['dtype'] == 'real' and N <= 4:
        ac = _same_charge(ctx, rng, ops, N, a, 'ac', D, 'complex', symb)
        Ac = dense_chain(ac, ph)
        ctx.eq([mps.measure_overlap(ac, b)], [(dense.conj(Ac) * B).sum()], '<ac|b> complex bra MPS, real ket MPS')
        ctx.eq([mps.measure_overlap(b, ac)], [(dense.conj(B) * Ac).sum()], '<b|ac> real bra MPS, complex ket MPS')
    return {'N': N, 'fam': FAM_SYM[spec['famsym']]}


def k_mpo_measure(ctx, spec):
    import yastn.tn.mps as mps
    rng, ops, N, D, symb, n = _setup(ctx, spec)
    if N > 5:
        N = 5
        symb = set(rng.sample(range(N), 2))
    ph = ops.space()
    a = _mk(ctx, rng, ops, N, 'a', 'mps', 2, n, spec['dtype'], symb, factor=True)
    b = _same_charge(ctx, rng, ops, N, a, 'b', 2, spec['dtype'], symb)
    H = _mk(ctx, rng, ops, N, 'h', 'mpo', 2, None, 'real', symb, factor=True)
    A, B, Hd = dense_chain(a, ph), dense_chain(b, ph), dense_chain(H, ph)
    ref = (dense.conj(A) * mpo_apply(Hd, B, N)).sum()
    ctx.eq([mps.measure_mpo(a, H, b)], [ref], '<a|H|b>')
    if N <= 3 and sum(ph.D) ** (2 * N) <= 300:
        # MPO states (purifications): <A| O B> = Tr(A^dagger O B), and with the operator flagged on_bra(): Tr(A^dagger B O); the flag survives
        # scaling, negation and copies of the operator
        Am = _mk(ctx, rng, ops, N, 'am', 'mpo', 2, None, 'real', symb)
        Bm = _mk(ctx, rng, ops, N, 'bm', 'mpo', 2, None, 'real', symb)
        Amd, Bmd = dense_chain(Am, ph), dense_chain(Bm, ph)
        OB = mpo_mul(Hd, Bmd, N)
        BO = mpo_mul(Bmd, Hd, N)
        ctx.eq([mps.measure_mpo(Am, H, Bm)], [(dense.conj(Amd) * OB).sum()], '<A|O B> for MPO states')
        Ob = H.on_bra()
        ctx.eq([mps.measure_mpo(Am, Ob, Bm)], [(dense.conj(Amd) * BO).sum()], '<A|B O> for MPO states, O.on_bra()')
        ctx.eq([mps.measure_mpo(Am, 2 * Ob, Bm)], [2 * (dense.conj(Amd) * BO).sum()], '<A|B (2 O)>: 2 * O.on_bra()')
        ctx.eq([mps.measure_mpo(Am, -Ob, Bm)], [-(dense.conj(Amd) * BO).sum()], '<A|B (-O)>: -O.on_bra()')
        ctx.eq([mps.measure_mpo(Am, Ob.shallow_copy(), Bm)], [(dense.conj(Amd) * BO).sum()], 'O.on_bra().shallow_copy()')
        ctx.eq([mps.measure_mpo(Am, (2 * H).on_bra(), Bm)], [2 * (dense.conj(Amd) * BO).sum()], '(2 O).on_bra()')
    ctx.eq([mps.vdot(a, H, b)], [ref], 'vdot(a, H, b)')
    if N <= 4:
        G = _mk(ctx, rng, ops, N, 'g', 'mpo', 2, None, 'real', symb)
        Gd = dense_chain(G, ph)
        ref2 = (dense.conj(A) * mpo_apply(Hd + Gd, B, N)).sum()
        ctx.eq([mps.measure_mpo(a, [H, G], b)], [ref2], '<a|(H+G)|b> with a list of MPOs')
        ctx.eq([mps.measure_mpo(a, H + G, b)], [ref2], '<a|(H+G)|b> with the sum MPO')
    return {'N': N, 'fam': FAM_SYM[spec['famsym']]}


def k_from_tensor(ctx, spec):
    """mps_from_tensor / mpo_from_tensor (chain of SVDs through the LAPACK contract stub, non-binding truncation options): the MPS/MPO
    represents exactly the tensor it was made from"""
    import yastn
    import yastn.tn.mps as mps
    rng = rng_of(spec)
    fam, symn = FAM_SYM[spec['famsym']]
    cfg0 = cat.make_config('dense')
    ops = make_ops(fam, symn, backend=cfg0.backend)
    ph = ops.space()
    d = sum(ph.D)
    nr = spec['nr_phys']
    N = spec['N']
    if d ** (N * nr) > 64 or (d > 2 and N * nr > 2):
        ctx.skip('too large')
    cfg = ops.config
    legs = []
    for _ in range(N):
        legs += [ph] if nr == 1 else [ph, ph.conj()]
    T = None
    cands = [None] if cfg.sym.NSYM == 0 else [tuple(cfg.sym.zero())] + charges_for(ops, N)
    rng.shuffle(cands)
    for n in cands:
        try:
            t = yastn.zeros(config=cfg, legs=legs, n=n)
        except yastn.YastnError:
            continue
        if t.size and t.size <= 40:
            T = t
            break
    if T is None:
        ctx.skip('no admissible tensor')
    ctx.fill(T, 't', 'real')
    if ctx.mode == 'sym':
        # every singular value met is 0 or above the default 1e-14 cut-off is not needed: non-binding options are passed explicitly
        pass
    psi = mps.mps_from_tensor(T, nr_phys=nr, canonize=spec['canonize'], opts_svd={'D_total': 4096})
    ctx.check(psi.N == N and psi.nr_phys == nr, 'mps_from_tensor: N sites')
    X = dense_chain(psi, ph)
    ctx.eq(X, reassemble(T, legs), f'mps_from_tensor(nr_phys={nr}, canonize={spec["canonize"]}) represents the tensor')
    return {'fam': fam, 'sym': symn, 'N': N, 'nr_phys': nr}


def k_pbc(ctx, spec):
    import yastn
    import yastn.tn.mps as mps
    rng, ops, N, D, symb, n = _setup(ctx, spec)
    N = rng.choice([1, 2, 2, 3]) if sum(ops.space().D) <= 2 else rng.choice([1, 2])
    ph = ops.space()
    cfg = ops.config
    # periodic MPO: site tensors with a non-trivial virtual leg shared around the ring
    vl = yastn.Leg(cfg, s=1, t=[cfg.sym.zero()], D=[2]) if cfg.sym.NSYM else yastn.Leg(cfg, s=1, D=(2,))
    H = mps.Mpo(N, periodic=True)
    for k in range(N):
        t = yastn.zeros(config=cfg, legs=[vl.conj(), ph, vl, ph.conj()])
        if t.size > 40:
            ctx.skip('large')
        H[k] = ctx.fill(t, f'h{k}', 'real')
    Hd = None
    arrs = [reassemble(H[k], [vl.conj(), ph, vl, ph.conj()]).transpose(0, 1, 3, 2) for k in range(N)]
    cur = arrs[0]
    for k in range(1, N):
        cur = np.tensordot(cur, arrs[k], axes=(cur.ndim - 1, 0))
    Hd = np.trace(cur, axis1=0, axis2=cur.ndim - 1)
    lt = [l for _ in range(N) for l in (ph, ph.conj())]
    ctx.eq(reassemble(H.to_tensor(), lt), Hd, 'MpoPBC.to_tensor == trace over the ring')
    # the separated factor (scalar multiplication, negation) belongs to the operator
    c = rng.choice([Fraction(5, 2), Fraction(-1, 2), Fraction(3)])
    c = c if ctx.mode == 'sym' else float(c)
    H = c * H
    Hd = c * Hd
    ctx.eq(reassemble(H.to_tensor(), lt), Hd, 'c * MpoPBC: to_tensor carries the factor')
    if rng.random() < 0.5:
        H, Hd = -H, -Hd
    sy = None if sum(ph.D) ** N <= 8 else {0}
    a = _mk(ctx, rng, ops, N, 'a', 'mps', 2, n, 'real', sy)
    b = _same_charge(ctx, rng, ops, N, a, 'b', 2, 'real', sy)
    A, B = dense_chain(a, ph), dense_chain(b, ph)
    ctx.eq([mps.measure_mpo(a, H, b)], [(dense.conj(A) * mpo_apply(Hd, B, N)).sum()], '<a|H_pbc|b>')
    return {'N': N, 'fam': FAM_SYM[spec['famsym']]}


def k_expression(ctx, spec):
    import yastn.tn.mps as mps
    rng, ops, N, D, symb, n = _setup(ctx, spec)
    N = min(N, 4)
    symb = None if sum(ops.space().D) ** N <= 8 else set(rng.sample(range(N), 2))
    ph = ops.space()
    a = _mk(ctx, rng, ops, N, 'a', 'mps', 2, n, 'real', symb, factor=True)
    b = _same_charge(ctx, rng, ops, N, a, 'b', 2, 'real', symb)
    H = _mk(ctx, rng, ops, N, 'h', 'mpo', 2, None, 'real', symb)
    A, B, Hd = dense_chain(a, ph), dense_chain(b, ph), dense_chain(H, ph)
    x = ctx.scalar('x', 'real')
    ctx.eq(dense_chain(H @ (a + b), ph), mpo_apply(Hd, A + B, N), 'H @ (a + b)')
    ctx.eq(dense_chain(x * (a - b), ph), x * (A - B), 'x (a - b)')
    ctx.eq(dense_chain((H @ a) + (H @ b), ph), mpo_apply(Hd, A + B, N), 'H@a + H@b')
    if N <= 3:
        G = _mk(ctx, rng, ops, N, 'g', 'mpo', 2, None, 'real', symb)
        Gd = dense_chain(G, ph)
        ctx.eq(dense_chain((H + G) @ a, ph), mpo_apply(Hd + Gd, A, N), '(H + G) @ a')
        ctx.eq([mps.measure_overlap(b, (H @ G) @ a)], [(dense.conj(B) * mpo_apply(mpo_mul(Hd, Gd, N), A, N)).sum()], '<b|(H G)|a>')
    return {'N': N, 'fam': FAM_SYM[spec['famsym']]}
