"""
C03 -- leg fusion is a faithful, reversible change of basis.

All stored elements of the operands are solver variables; the real fuse_legs / unfuse_legs / fuse_meta_to_hard / block and the
mask machinery used when fused legs of two operands differ in sector content are executed; z3 decides equality with the
un-fused reference (plain NumPy on the re-assembled un-fused operands).
"""
from __future__ import annotations
import itertools
import numpy as np
from symx import catalogue as cat
from symx import dense
from symx.dense import reassemble
from symx.wellformed import wellformed, gadd
from .common import rng_of, cfg_of, describe, union_leg, check_result_legs
from .C01 import hash_seed, _contract_pair, _partner_spec, _maxsize, _dims

PROPERTY = 'C03'
FUNCTIONS = ['fuse_legs (hard, meta, force_fusion)', 'unfuse_legs', 'fuse_meta_to_hard', '_meta_fuse_hard', '_meta_unfuse_hard',
             '_masks_hfs_intersection', '_mask_embed_in_union', '_hfs_union', 'legs_union', '_embed_tensor', 'yastn.block',
             'tensordot / vdot / trace / __add__ on fused operands', '_leg_structure_combine_charges_prod/_sum', '_combine_hfs_prod/_sum']
ASSUMPTIONS = ['exact arithmetic', 'structures limited to catalogue bounds']
OUTSIDE = ['fusion depth > 3', '> 4 legs per fusion group', 'torch backends']
BOUNDS = {'quick': {'rank': '2..4', 'depth': '<= 2', 'modes': ['hard', 'meta', 'mixed'], 'overlap': ['equal', 'subset', 'superset', 'overlap', 'disjoint']},
          'thorough': {'rank': '2..5', 'depth': '<= 3'}}
OPTS = {'quick': {'max_paths': 50}, 'thorough': {'max_paths': 50}}
SYMS = list(cat.SYMS)
KINDS = ['roundtrip', 'roundtrip_multi', 'dot', 'add', 'vdot', 'trace', 'block', 'reject']


def cases(tier, seed):
    out = []
    reps = 5 if tier == 'quick' else 600
    for kind in KINDS:
        fac = {'sym': SYMS, 'dtype': ['real', 'complex'], 'mode': ['hard', 'meta', 'mixed'], 'drop': ['none', 'some'],
               'lazy': ['plain', 'lazy']}
        if kind == 'roundtrip':
            fac['rank'] = [2, 3, 4, 5]
            fac['depth'] = [1, 2] if tier == 'quick' else [1, 2, 3]
        if kind == 'roundtrip_multi':
            fac = {'sym': SYMS, 'dtype': ['real', 'complex'], 'mode': ['hard', 'meta', 'mixed'], 'split': ['3+2', '2+3', '2+1+2', '2+2+1', '1+2+2', '4+1', '3+1+1', 'h3+m2+h2', 'h2+m2+h3', 'h2+m2+h1+h3'], 'perm': ['lazy', 'consumed', 'none'], 'unfuse': ['all', 'hard-first', 'meta-first', 'one-by-one']}
        if kind in ('dot', 'add', 'vdot'):
            fac['overlap'] = ['equal', 'subset', 'superset', 'overlap', 'disjoint']
            fac['policy'] = ['fuse_to_matrix', 'fuse_contracted', 'no_fusion']
        if kind == 'reject':
            fac = {'sym': SYMS, 'variant': ['tree', 'unfused-vs-fused', 'signature', 'subdims', 'meta-vs-hard', 'nlegs', 'block-vs-fuse', 'subdims-equal-total'], 'mode': ['hard', 'meta']}
        if kind == 'block':
            fac = {'sym': SYMS, 'dtype': ['real', 'complex'], 'layout': ['1d', '2d', 'common'], 'drop': ['none', 'some'], 'overlap': ['equal', 'superset', 'disjoint']}
        for rep in range(reps):
            for i, row in enumerate(cat.covering(fac, seed=seed * 31 + rep * 5 + KINDS.index(kind), strength=2)):
                c = dict(row)
                c.update(kind=kind, tier=tier, id=f'{kind}-{rep}-{i}', seed=hash_seed(seed, 'C03', kind, rep, i))
                out.append(c)
    # hard fusion of a leg that is itself a block() direct sum, one operand having lost a sector of the blocked leg: fixed structures
    for i, (dtype, op) in enumerate(itertools.product(['real', 'complex'], ['add', 'vdot', 'dot', 'to_numpy'])):
        out.append({'kind': 'blocked_fused', 'sym': 'U1', 'dtype': dtype, 'op': op, 'tier': tier, 'id': f'blocked_fused-{op}-{dtype}', 'seed': hash_seed(seed, 'C03', 'bf', i)})
    return out


def run(ctx, spec):
    rng = rng_of(spec)
    cfg = cfg_of(spec)
    return globals()['k_' + spec['kind']](ctx, rng, spec, cfg)


def _mode(rng, spec):
    m = spec.get('mode', 'hard')
    return rng.choice(['hard', 'meta']) if m == 'mixed' else m


def _rand_grouping(rng, labels):
    """random ordered partition of the current legs into groups (at least one group with >= 2 legs if possible)."""
    idx = list(range(len(labels)))
    rng.shuffle(idx)
    groups, i = [], 0
    while i < len(idx):
        k = rng.choice([1, 1, 2, 2, 3]) if len(idx) - i > 1 else 1
        groups.append(tuple(idx[i:i + k]))
        i += k
    if all(len(g) == 1 for g in groups) and len(idx) >= 2:
        groups = [tuple(idx[:2])] + [(x,) for x in idx[2:]]
    return groups


def _flatten(l):
    if isinstance(l, tuple):
        out = []
        for x in l:
            out.extend(_flatten(x))
        return out
    return [l]


def k_roundtrip(ctx, rng, spec, cfg):
    import yastn
    rank = spec['rank']
    ts = cat.rand_tensor_spec(rng, spec['sym'], rank, dims=_dims(spec), nsect=(1, 2, 3) if rank < 5 else (1, 2), max_size=_maxsize(spec), drop=spec.get('drop', 'none'), dtype=spec['dtype'])
    if ts is None:
        ctx.skip('none')
    a = cat.build(ctx, ts, 'a', config=cfg)
    if spec.get('lazy') == 'lazy' and rank >= 2:
        perm = list(range(rank))
        rng.shuffle(perm)
        a = a.transpose(tuple(perm))
    A = reassemble(a)
    la = list(a.get_legs(native=True))
    labels = list(range(rank))        # current legs as nested tuples of original (logical) leg ids
    f = a
    naa = yastn.vdot(a, a)
    steps = []
    for d in range(spec['depth']):
        if len(labels) < 2:
            break
        groups = _rand_grouping(rng, labels)
        if d == 0 and rank == 5 and rng.random() < 0.6:
            idx5 = list(range(5)); rng.shuffle(idx5)
            groups = [tuple(idx5[:3]), tuple(idx5[3:])] if rng.random() < 0.5 else [tuple(idx5[:2]), tuple(idx5[2:])]
        mode = _mode(rng, spec)
        axes = tuple(g[0] if len(g) == 1 else g for g in groups)
        f = f.fuse_legs(axes=axes, mode=mode)
        labels = [labels[g[0]] if len(g) == 1 else tuple(labels[x] for x in g) for g in groups]
        steps.append((axes, mode))
        if spec.get('lazy') == 'lazy' and len(labels) >= 2 and rng.random() < 0.7:
            # pending (lazy) permutation of the fused tensor: un-fusing must honour it
            q = list(range(len(labels))); rng.shuffle(q)
            f = f.transpose(tuple(q))
            labels = [labels[i] for i in q]
        wellformed(ctx, f, f'fuse[{d}]', expect_n=a.n, check_dense_zero=False)
        ctx.check(f.ndim == len(labels), 'fuse:rank', (f.ndim, labels))
        ctx.eq([yastn.vdot(f, f)], [naa], 'fuse:norm^2-preserved')
        # signature of a fused leg = signature of its first native leg
        ctx.check(tuple(f.get_signature()) == tuple(la[_flatten(l)[0]].s for l in labels), 'fuse:signature-of-first-leg')
    # unfuse everything, outermost layers first
    guard = 0
    while any(isinstance(l, tuple) for l in labels):
        guard += 1
        idx = [i for i, l in enumerate(labels) if isinstance(l, tuple)]
        pick = idx if rng.random() < 0.5 else [rng.choice(idx)]
        f = f.unfuse_legs(axes=tuple(pick) if len(pick) > 1 or rng.random() < 0.5 else pick[0])
        new = []
        for i, l in enumerate(labels):
            if i in pick:
                new.extend(list(l))
            else:
                new.append(l)
        labels = new
        wellformed(ctx, f, f'unfuse[{guard}]', expect_n=a.n, check_dense_zero=False)
        ctx.check(f.ndim == len(labels), 'unfuse:rank', (f.ndim, labels))
    order = labels
    ctx.check(sorted(order) == list(range(rank)), 'unfuse:all-legs-back', order)
    got_legs = f.get_legs(native=True)
    ctx.check(all(dense.legs_equal(x, la[o]) for x, o in zip(got_legs, order)), 'unfuse:legs-restored',
              [(x.s, x.t, x.D, x.hf == la[o].hf) for x, o in zip(got_legs, order)])
    ctx.check(f.mfs == ((1,),) * rank, 'unfuse:no-meta-left', f.mfs)
    ctx.eq(reassemble(f, [la[o] for o in order]), A.transpose(order), 'unfuse(fuse(a)) == a')
    return {'a': describe(a), 'steps': steps}


def k_roundtrip_multi(ctx, rng, spec, cfg):
    """several fused legs of unequal group sizes, a pending permutation of the fused tensor, then ALL fused legs un-fused in one call"""
    import yastn
    parts = spec['split'].split('+')
    forced = [x[0] if x[0] in 'hm' else None for x in parts]
    sizes = [int(x.lstrip('hm')) for x in parts]
    rank = sum(sizes)
    ts = cat.rand_tensor_spec(rng, spec['sym'], rank, dims=(1, 2) if rank <= 5 else (1,), nsect=(1, 2), max_size=_maxsize(spec), dtype=spec['dtype'],
                              drop=rng.choice(['none', 'some']))
    if ts is None:
        ctx.skip('none')
    a = cat.build(ctx, ts, 'a', config=cfg)
    A = reassemble(a)
    la = list(a.get_legs(native=True))
    idx = list(range(rank)); rng.shuffle(idx)
    groups, p = [], 0
    for k in sizes:
        groups.append(tuple(idx[p:p + k])); p += k
    modes = []
    f = a
    # fuse every group with >= 2 legs; with mode 'mixed' the groups get different modes (hard ones first, then meta)
    m0 = spec['mode']
    gm = [(m0 if m0 != 'mixed' else rng.choice(['hard', 'meta'])) if len(g) > 1 else None for g in groups]
    if any(forced):
        gm = [({'h': 'hard', 'm': 'meta'}[fz] if len(g) > 1 else None) for g, fz in zip(groups, forced)]
    hard_axes = tuple(g if (len(g) > 1 and gm[i] == 'hard') else None for i, g in enumerate(groups))
    # step 1: hard fusions (others stay as single legs, kept in order)
    axes1, lab1 = [], []
    for g, m in zip(groups, gm):
        if len(g) > 1 and m == 'hard':
            axes1.append(g); lab1.append(tuple(g))
        else:
            for x in g:
                axes1.append(x); lab1.append(x)
    f = f.fuse_legs(axes=tuple(axes1), mode='hard')
    # step 2: meta fusions of the remaining groups
    axes2, lab2 = [], []
    pos = {l: i for i, l in enumerate(lab1)}
    for g, m in zip(groups, gm):
        if len(g) > 1 and m == 'hard':
            axes2.append(pos[tuple(g)]); lab2.append(tuple(g))
        elif len(g) > 1:
            axes2.append(tuple(pos[x] for x in g)); lab2.append(tuple(g))
        else:
            axes2.append(pos[g[0]]); lab2.append(g[0])
    f = f.fuse_legs(axes=tuple(axes2), mode='meta')
    labels = lab2
    if spec['perm'] != 'none' and len(labels) >= 2:
        q = list(range(len(labels)))
        for _ in range(6):
            rng.shuffle(q)
            if q != sorted(q):
                break
        f = f.transpose(tuple(q))
        labels = [labels[i] for i in q]
        if spec['perm'] == 'consumed':
            f = f.consume_transpose()
    wellformed(ctx, f, 'fused+permuted', expect_n=a.n, check_dense_zero=False)
    order = [x for l in labels for x in (l if isinstance(l, tuple) else (l,))]
    gmode = {tuple(g): m for g, m in zip(groups, gm)}
    def unfuse_where(t, labs, pred):
        pos_ = tuple(i for i, l in enumerate(labs) if isinstance(l, tuple) and pred(l))
        if not pos_:
            return t, labs
        t = t.unfuse_legs(axes=pos_ if len(pos_) > 1 else pos_[0])
        new_l = []
        for i, l in enumerate(labs):
            new_l.extend(list(l) if i in pos_ else [l])
        return t, new_l
    uo = spec.get('unfuse', 'all')
    u, labs = f, list(labels)
    if uo == 'all':
        u, labs = unfuse_where(u, labs, lambda l: True)
    elif uo == 'hard-first':
        u, labs = unfuse_where(u, labs, lambda l: gmode[l] == 'hard')
        wellformed(ctx, u, 'unfuse-hard-only', expect_n=a.n, check_dense_zero=False)
        ctx.check(u.ndim == len(labs), 'unfuse(hard legs only): rank', (u.ndim, labs, u.mfs))
        u, labs = unfuse_where(u, labs, lambda l: True)
    elif uo == 'meta-first':
        u, labs = unfuse_where(u, labs, lambda l: gmode[l] == 'meta')
        ctx.check(u.ndim == len(labs), 'unfuse(meta legs only): rank', (u.ndim, labs, u.mfs))
        u, labs = unfuse_where(u, labs, lambda l: True)
    else:
        while any(isinstance(l, tuple) for l in labs):
            first = next(l for l in labs if isinstance(l, tuple))
            u, labs = unfuse_where(u, labs, lambda l, first=first: l == first)
    ctx.check(labs == order, 'harness bookkeeping')
    wellformed(ctx, u, 'unfuse-all-at-once', expect_n=a.n, check_dense_zero=False)
    ctx.check(u.ndim == rank and u.mfs == ((1,),) * rank, 'unfuse:rank/mfs', (u.ndim, u.mfs))
    got = u.get_legs(native=True)
    ctx.check(all(dense.legs_equal(x, la[o]) for x, o in zip(got, order)), 'unfuse:legs-in-permuted-order', [(x.t, x.D, la[o].t, la[o].D) for x, o in zip(got, order)])
    ctx.eq(reassemble(u, [la[o] for o in order]), A.transpose(order), f'unfuse_legs(all fused legs at once) after a pending permutation ({spec["split"]}, {gm}, {spec["perm"]})')
    return {'a': describe(a), 'groups': groups, 'modes': gm}


def _fuse_pair(ctx, rng, spec, a, b, axes_a, axes_b):
    """fuse the matching legs of a and b (same order) into one leg each; returns fused tensors and positions of the fused legs."""
    mode = _mode(rng, spec)
    oa = [i for i in range(a.ndim) if i not in axes_a]
    ob = [i for i in range(b.ndim) if i not in axes_b]
    pa = rng.randint(0, len(oa))
    pb = rng.randint(0, len(ob))
    ax_a = tuple(oa[:pa]) + (tuple(axes_a),) + tuple(oa[pa:])
    ax_b = tuple(ob[:pb]) + (tuple(axes_b),) + tuple(ob[pb:])
    fa = a.fuse_legs(axes=ax_a, mode=mode)
    fb = b.fuse_legs(axes=ax_b, mode=mode)
    return fa, fb, pa, pb, oa, ob, mode


def _rich_leg(rng, symn):
    if symn in ('dense', 'none'):
        return {'t': [[]], 'D': [rng.choice([1, 2, 3])]}
    win = cat.window(symn)
    k = min(len(win), rng.choice([2, 2, 3]))
    ts = sorted(rng.sample(win, k))
    return {'t': [list(t) for t in ts], 'D': [rng.choice([1, 2]) for _ in ts]}


def _rich_pair(ctx, rng, spec, cfg, k, ea, eb, same_side=False):
    """a: legs 0..k-1 to be fused (multi-sector), then ea extra legs; b: matching legs (dual, or equal when same_side) with
    perturbed sector content on EVERY matched leg, then eb extra legs."""
    symn = spec['sym']
    mode = spec.get('overlap', 'equal')
    cl = [_rich_leg(rng, symn) for _ in range(k)]
    sa = [rng.choice([1, -1]) for _ in range(k)]
    cb = [cat.perturb_leg(rng, symn, l, mode if (mode == 'equal' or rng.random() < 0.8) else 'equal') for l in cl]
    msz = _maxsize(spec)
    ta = cat.rand_tensor_spec(rng, symn, k + ea, fixed={i: (sa[i], cl[i]) for i in range(k)}, dims=(1, 2), nsect=(1, 2), max_size=msz,
                              drop=spec.get('drop', 'none'), dtype=spec['dtype'])
    if ta is None:
        ctx.skip('none')
    sgn = 1 if same_side else -1
    common = [[t for t in cl[i]['t'] if t in cb[i]['t']] for i in range(k)]
    prefer = {i: rng.choice(common[i]) for i in range(k) if common[i]}
    kw = {}
    if same_side:
        kw = {'s': None}
    tb = cat.rand_tensor_spec(rng, symn, k + eb, fixed={i: (sgn * sa[i], cb[i]) for i in range(k)}, prefer=prefer, dims=(1, 2), nsect=(1, 2),
                              max_size=msz, drop=spec.get('drop', 'none'), dtype=spec['dtype'])
    if tb is None:
        ctx.skip('none')
    if same_side:
        # addition / vdot partner: same signature, same charge, same extra legs
        tb['s'] = list(ta['s'])
        for j in range(k, k + ea):
            tb['legs'][j] = cat.perturb_leg(rng, symn, ta['legs'][j], 'equal')
        tb['legs'] = tb['legs'][:k + ea]
        tb['n'] = list(ta['n'])
        tb['blocks'] = None
        if not cat.allowed_blocks(symn, tb['s'], tb['legs'], tb['n']) or cat.spec_size(tb) > msz:
            ctx.skip('none')
    return cat.build(ctx, ta, 'a', config=cfg), cat.build(ctx, tb, 'b', config=cfg), ta, tb


def _nest(rng, k):
    """fusion plan for k legs at positions 0..k-1: list of steps; each step = list of groups over current legs"""
    if k == 2:
        return 'flat'
    return rng.choice(['flat', 'left', 'right'])


def _apply_plan(t, k, plan, mode_fn, tail):
    """fuse legs 0..k-1 of t (tail legs follow) according to plan; returns tensor with the fused leg at position 0."""
    rest = tuple(range(k, k + tail))
    if plan == 'flat':
        return t.fuse_legs(axes=(tuple(range(k)),) + rest, mode=mode_fn())
    if plan == 'left':      # ((0,1),2,...)
        t = t.fuse_legs(axes=((0, 1),) + tuple(range(2, k + tail)), mode=mode_fn())
        return t.fuse_legs(axes=(tuple(range(0, k - 1)),) + tuple(range(k - 1, k - 1 + tail)), mode=mode_fn())
    t = t.fuse_legs(axes=(0, (1, 2)) + tuple(range(3, k + tail)), mode=mode_fn())
    return t.fuse_legs(axes=(tuple(range(0, k - 1)),) + tuple(range(k - 1, k - 1 + tail)), mode=mode_fn())


def k_dot(ctx, rng, spec, cfg):
    import yastn
    k = rng.choice([2, 2, 3])
    ea, eb = rng.choice([0, 1, 1]), rng.choice([0, 1, 1])
    a, b, ta, tb = _rich_pair(ctx, rng, spec, cfg, k, ea, eb)
    plan = _nest(rng, k)
    modes = []
    m0 = _mode(rng, spec)
    def mode_fn():
        m = m0 if spec.get('mode') != 'mixed' else rng.choice(['hard', 'meta'])
        modes.append(m)
        return m
    st = rng.getstate()
    fa = _apply_plan(a, k, plan, mode_fn, ea)
    ma = list(modes)
    modes.clear()
    rng.setstate(st)          # same sequence of modes for b (fusion histories must match to be contractible)
    fb = _apply_plan(b, k, plan, mode_fn, eb)
    if spec.get('lazy') == 'lazy' and fa.ndim >= 2:
        fa = fa.transpose(tuple(range(1, fa.ndim)) + (0,))
        c = yastn.tensordot(fa, fb, axes=(fa.ndim - 1, 0))
    else:
        c = yastn.tensordot(fa, fb, axes=(0, 0))
    axes_a = axes_b = list(range(k))
    la, lb = list(a.get_legs(native=True)), list(b.get_legs(native=True))
    for i in range(k):
        u = union_leg(la[i], lb[i].conj())
        la[i], lb[i] = u, u.conj()
    ref = np.tensordot(reassemble(a, la), reassemble(b, lb), axes=(axes_a, axes_b))
    lc = la[k:] + lb[k:]
    symid = cfg.sym.SYM_ID
    wellformed(ctx, c, 'dot-over-fused', expect_n=gadd(symid, [a.n, b.n], [1, 1]))
    check_result_legs(ctx, c, lc, 'dot-over-fused')
    ctx.eq(reassemble(c, lc) if lc else [c.to_number()], ref if lc else [ref], f'tensordot over fused legs ({plan},{ma}) == tensordot over original legs')
    return {'a': describe(a), 'b': describe(b), 'plan': plan, 'modes': ma}


def _fused_same_side(ctx, rng, spec, cfg):
    k = rng.choice([2, 2, 3])
    ea = rng.choice([0, 1])
    a, b, ta, tb = _rich_pair(ctx, rng, spec, cfg, k, ea, ea, same_side=True)
    plan = _nest(rng, k)
    modes = []
    m0 = _mode(rng, spec)
    def mode_fn():
        m = m0 if spec.get('mode') != 'mixed' else rng.choice(['hard', 'meta'])
        modes.append(m)
        return m
    st = rng.getstate()
    fa = _apply_plan(a, k, plan, mode_fn, ea)
    ma = list(modes)
    rng.setstate(st)
    fb = _apply_plan(b, k, plan, mode_fn, ea)
    if spec.get('lazy') == 'lazy' and fa.ndim >= 2:
        q = tuple(range(1, fa.ndim)) + (0,)
        fa, fb = fa.transpose(q), fb.transpose(q)       # the same pending permutation on both operands
    return a, b, fa, fb, k, ea, plan, ma


def _unfuse_all(t):
    g = 0
    while (any(mf != (1,) for mf in t.mfs) or any(hf.tree[0] > 1 for hf in t.hfs)) and g < 6:
        ax = tuple(i for i in range(t.ndim) if t.get_legs(i).is_fused())
        t = t.unfuse_legs(axes=ax)
        g += 1
    return t


def k_add(ctx, rng, spec, cfg):
    import yastn
    a, b, fa, fb, k, ea, plan, ma = _fused_same_side(ctx, rng, spec, cfg)
    U = [union_leg(x, y) for x, y in zip(a.get_legs(native=True), b.get_legs(native=True))]
    A, B = reassemble(a, U), reassemble(b, U)
    fa2 = ctx.fill(fa.copy(), 'a2', spec['dtype'])        # same fused structure as fa, fresh symbols
    A2 = reassemble(_unfuse_all(fa2.transpose((fa2.ndim - 1,) + tuple(range(fa2.ndim - 1))) if (spec.get('lazy') == 'lazy' and fa2.ndim >= 2) else fa2), U)
    x = ctx.scalar('x', 'real')
    for name, c, ref in (('+', fa + fb, A + B), ('-', fa - fb, A - B), ('add3', yastn.add(fa, fb, fa2, amplitudes=[x, None, 2]), x * A + B + 2 * A2),
                         ('add3b', yastn.add(fb, fa, fa2, fb), B + A + A2 + B)):
        wellformed(ctx, c, f'fused{name}', expect_n=a.n, check_dense_zero=False)
        if spec.get('lazy') == 'lazy' and c.ndim >= 2:
            c = c.transpose((c.ndim - 1,) + tuple(range(c.ndim - 1)))      # undo the shared permutation: fused leg first again
        cu = _unfuse_all(c)
        wellformed(ctx, cu, f'unfuse(fused{name})', expect_n=a.n)
        check_result_legs(ctx, cu, U, f'unfuse(fused{name})')
        ctx.eq(reassemble(cu, U), ref, f'unfuse(fuse(a) {name} fuse(b)) == a {name} b  [{plan},{ma}]')
    return {'a': describe(a), 'b': describe(b), 'plan': plan, 'modes': ma}


def k_vdot(ctx, rng, spec, cfg):
    import yastn
    a, b, fa, fb, k, ea, plan, ma = _fused_same_side(ctx, rng, spec, cfg)
    U = [union_leg(x, y) for x, y in zip(a.get_legs(native=True), b.get_legs(native=True))]
    A, B = reassemble(a, U), reassemble(b, U)
    ctx.eq([yastn.vdot(fa, fb)], [(dense.conj(A) * B).sum()], f'vdot over fused legs [{plan},{ma}]')
    ctx.eq([yastn.vdot(fa, fa)], [(dense.conj(A) * A).sum()], 'norm^2 of fused == norm^2')
    return {'a': describe(a), 'b': describe(b), 'plan': plan, 'modes': ma}


def k_trace(ctx, rng, spec, cfg):
    import yastn
    # tensor with legs (p1, p2, q1, q2 [, r]) where q_i is the dual of p_i with perturbed sector content
    symn = spec['sym']
    extra = rng.choice([0, 1])
    rank = 4 + extra
    ts0 = cat.rand_tensor_spec(rng, symn, 2, dims=(1, 2), nsect=(1, 2), max_size=10 ** 6)
    if ts0 is None:
        ctx.skip('none')
    fixed, prefer = {}, {}
    for i in range(2):
        fixed[i] = (ts0['s'][i], ts0['legs'][i])
        fixed[2 + i] = (-ts0['s'][i], cat.perturb_leg(rng, symn, ts0['legs'][i], rng.choice(['equal', 'subset', 'superset'])))
        t = rng.choice(ts0['legs'][i]['t'])
        prefer[i] = t
        prefer[2 + i] = t
    ts = cat.rand_tensor_spec(rng, symn, rank, fixed=fixed, prefer=prefer, dims=(1, 2), nsect=(1, 2), max_size=_maxsize(spec),
                              drop=spec.get('drop', 'none'), dtype=spec['dtype'])
    if ts is None:
        ctx.skip('none')
    a = cat.build(ctx, ts, 'a', config=cfg)
    mode = _mode(rng, spec)
    axes = ((0, 1), (2, 3)) + (((4,),) if extra else ())
    f = a.fuse_legs(axes=tuple(g if len(g) > 1 else g[0] for g in axes), mode=mode)
    c = f.trace(axes=(0, 1))
    la = list(a.get_legs(native=True))
    for i in range(2):
        u = union_leg(la[i], la[2 + i].conj())
        la[i], la[2 + i] = u, u.conj()
    A = reassemble(a, la)
    ref = np.trace(np.trace(A, axis1=0, axis2=2), axis1=0, axis2=1)
    wellformed(ctx, c, 'trace-over-fused', expect_n=a.n)
    if extra:
        check_result_legs(ctx, c, [la[4]], 'trace-over-fused')
        ctx.eq(reassemble(c, [la[4]]), ref, f'trace over {mode}-fused legs == trace over original legs')
    else:
        ctx.eq([c.to_number()], [ref], f'trace over {mode}-fused legs == trace over original legs')
    return {'a': describe(a), 'mode': mode}


def k_block(ctx, rng, spec, cfg):
    import yastn
    symn = spec['sym']
    layout = spec['layout']
    rank = 2 if layout != 'common' else 3
    common = None if layout != 'common' else (rng.randrange(3),)
    nb = rank - (0 if common is None else 1)
    grid = (2,) if False else tuple(rng.choice([1, 2]) if layout != '1d' or i == 0 else 1 for i in range(nb))
    if layout == '1d':
        grid = (rng.choice([2, 3]),) + (1,) * (nb - 1)
    base = cat.rand_tensor_spec(rng, symn, rank, dims=(1, 2), nsect=(1, 2), max_size=30, dtype=spec['dtype'])
    if base is None:
        ctx.skip('none')
    tens, specs = {}, {}
    bl = [i for i in range(rank) if common is None or i not in common]
    # per blocked leg and position: a leg; common legs shared
    pos_legs = {}
    for i in bl:
        for p in range(grid[bl.index(i)]):
            pos_legs[(i, p)] = cat.perturb_leg(rng, symn, base['legs'][i], spec.get('overlap', 'equal') if p else 'equal')
    k = 0
    for pos in itertools.product(*[range(g) for g in grid]):
        if spec.get('drop') == 'some' and rng.random() < 0.25 and k > 0:
            continue
        legs = [pos_legs[(i, pos[bl.index(i)])] if i in bl else base['legs'][i] for i in range(rank)]
        blocks = cat.allowed_blocks(symn, base['s'], legs, base['n'])
        if not blocks:
            continue
        tsp = {'sym': symn, 'fermionic': False, 's': base['s'], 'legs': legs, 'n': base['n'], 'blocks': None, 'dtype': spec['dtype'], 'isdiag': False}
        t = cat.build(ctx, tsp, f'b{k}', config=cfg)
        tens[pos if len(pos) > 1 else pos[0]] = t
        specs[pos] = t
        k += 1
    if not tens:
        ctx.skip('no blocks')
    c = yastn.block(tens, common_legs=common)
    wellformed(ctx, c, 'block', expect_n=tuple(base['n']), check_dense_zero=False)
    # oracle: along each blocked leg, sector t of the result is the concatenation over positions p (ascending) of the
    # (union over tensors at p) sector t; tensor at position pa sits in the corresponding sub-slice
    nsym = cfg.sym.NSYM
    legs_by = {}
    for pos, t in specs.items():
        for i, l in enumerate(t.get_legs(native=True)):
            key = (i, pos[bl.index(i)] if i in bl else 0)
            legs_by[key] = union_leg(legs_by[key], l) if key in legs_by else l
    res_legs = c.get_legs(native=True)
    sub = {}
    for i in range(rank):
        ps = sorted(p for (j, p) in legs_by if j == i)
        tot = {}
        for p in ps:
            l = legs_by[(i, p)]
            for t, D in zip(l.t, l.D):
                lo = tot.get(t, 0)
                sub[(i, p, t)] = (lo, lo + D)
                tot[t] = lo + D
        ctx.check(dict(zip(res_legs[i].t, res_legs[i].D)) == {t: D for t, D in tot.items() if t in res_legs[i].t} and set(res_legs[i].t) <= set(tot),
                  'block:leg-is-direct-sum', (i, res_legs[i].t, res_legs[i].D, tot))
    C = reassemble(c)
    ref = np.zeros(C.shape, dtype=C.dtype)
    offs = [dense.offsets(l)[0] for l in res_legs]
    for pos, t in specs.items():
        tl = t.get_legs(native=True)
        for combo in itertools.product(*[l.t for l in tl]):
            key = sum((tuple(x) for x in combo), ())
            try:
                blk = t[key]
            except yastn.YastnError:
                continue
            sl = []
            for i, ch in enumerate(combo):
                p = pos[bl.index(i)] if i in bl else 0
                lo, hi = sub[(i, p, tuple(ch))]
                o = offs[i][tuple(ch)][0]
                sl.append(slice(o + lo, o + hi))
            ref[tuple(sl)] = blk
    ctx.eq(C, ref, 'block == direct sum placement')
    _block_fused_common(ctx, rng, spec, cfg)
    return {'grid': grid, 'common': common, 'n_tensors': len(tens)}


def _block_fused_common(ctx, rng, spec, cfg):
    """block() of tensors whose COMMON (non-blocked) leg is a hard fusion of two legs with different sector content in the different tensors,
    blocked legs first/last (the common leg in the middle): unfusing the result must give block() of the unfused tensors (whose placement
    is checked by the direct-sum oracle above) -- missing sectors of the common space behave as zeros"""
    import yastn
    symn = spec['sym']
    base = cat.rand_tensor_spec(rng, symn, 4, dims=(1, 2), nsect=(1, 2), max_size=40, dtype=spec['dtype'])
    if base is None:
        return
    tens_f, tens_u = {}, {}
    for p in range(2):
        legs = list(base['legs'])
        if p:
            # different sector content on the two legs that will be fused (overlap / subset / superset / disjoint), blocked legs independent
            mode = spec.get('overlap', 'overlap') if spec.get('overlap', 'equal') != 'equal' else rng.choice(['overlap', 'subset', 'superset'])
            legs[1] = cat.perturb_leg(rng, symn, legs[1], mode)
            legs[2] = cat.perturb_leg(rng, symn, legs[2], rng.choice(['equal', 'overlap', 'subset']))
            legs[0] = cat.perturb_leg(rng, symn, legs[0], 'overlap')
        if not cat.allowed_blocks(symn, base['s'], legs, base['n']):
            continue
        tsp = {'sym': symn, 'fermionic': False, 's': base['s'], 'legs': legs, 'n': base['n'], 'blocks': None, 'dtype': spec['dtype'], 'isdiag': False}
        t = cat.build(ctx, tsp, f'bf{p}', config=cfg)
        if t.size == 0 or t.size > 60:
            continue
        tens_u[(p, p)] = t
        tens_f[(p, p)] = t.fuse_legs(axes=(0, (1, 2), 3), mode='hard')
    if len(tens_f) < 2:
        return
    cf = yastn.block(tens_f, common_legs=(1,))
    cu = yastn.block(tens_u, common_legs=(1, 2))
    wellformed(ctx, cf, 'block with a hard-fused common leg', expect_n=tuple(base['n']), check_dense_zero=False)
    back = cf.unfuse_legs(axes=1)
    lu = list(cu.get_legs(native=True))
    lb = list(back.get_legs(native=True))
    ctx.check(len(lu) == len(lb), 'block(fused common leg).unfuse: rank')
    U = [union_leg(x, y) for x, y in zip(lb, lu)]
    ctx.eq(reassemble(back, U), reassemble(cu, U), 'block over a hard-fused common leg with mismatched sector content == block of the unfused tensors')


KNOWN_BF = 'vdot / tensordot over a hard fusion p(s(oo)o) of a blocked leg after one operand lost a sector of it'


def k_blocked_fused(ctx, rng, spec, cfg):
    """legs with fusion history p(s(oo)o): a direct sum made by block(), then hard-fused with another leg; operand 1 has lost a sector of its
    third leg by a contraction with a projector (so its blocked leg no longer shows one charge), operand 2 has not.  Addition, to_numpy and
    contractions over the fused leg must agree with the same operations on the unfused tensors (missing sectors behave as zeros).
    vdot / tensordot over such legs used to fail (defect repaired by /repo commit fca0a19, known_findings.json: fixed); their obligations
    keep the one label KNOWN_BF."""
    import yastn
    def sparse(name, blocks, s=(1, 1, -1)):
        a = yastn.Tensor(config=cfg, s=s)
        for ts, Ds in blocks:
            a.set_block(ts=ts, Ds=Ds, val='zeros')
        return ctx.fill(a, name, spec['dtype'])
    Dk = {-1: 1, 0: 2, 1: 1}; Dm = {0: 2, 1: 3, 2: 1}
    DA = {0: 2, 1: 1}; DB = {1: 2, 2: 1}
    blk = lambda D0, t: (t, (D0[t[0]], Dk[t[1]], Dm[t[2]]))
    A1 = sparse('A1', [blk(DA, (0, 1, 1)), blk(DA, (1, -1, 0))])
    A2 = sparse('A2', [blk(DA, (0, 1, 1)), blk(DA, (1, -1, 0))])
    B1 = sparse('B1', [blk(DB, (1, 0, 1)), blk(DB, (2, 0, 2))])
    B2 = sparse('B2', [blk(DB, (1, 0, 1)), blk(DB, (2, -1, 1))])
    x1 = yastn.block({(0, 0, 0): A1, (1, 0, 0): B1})
    x2 = yastn.block({(0, 0, 0): A2, (1, 0, 0): B2})
    P = yastn.eye(cfg, legs=[yastn.Leg(cfg, s=1, t=(0, 1), D=(2, 3)), yastn.Leg(cfg, s=-1, t=(0, 1), D=(2, 3))], isdiag=False)
    r1 = yastn.tensordot(x1, P, axes=(2, 0))          # loses the sector m = 2 (and with it the charge 2 on the blocked leg)
    r2 = x2
    fr1 = r1.fuse_legs(axes=((0, 1), 2), mode='hard')
    fr2 = r2.fuse_legs(axes=((0, 1), 2), mode='hard')
    op = spec['op']
    lu = [union_leg(a, b) for a, b in zip(r1.get_legs(native=True), r2.get_legs(native=True))]
    R1, R2 = reassemble(r1, lu), reassemble(r2, lu)
    if op == 'add':
        c = fr1 + fr2
        wellformed(ctx, c, 'blocked_fused add', check_dense_zero=False)
        ctx.eq(reassemble(c.unfuse_legs(axes=0), lu), R1 + R2, 'a + b over p(s(oo)o) legs == sum of the unfused tensors')
    elif op == 'to_numpy':
        u = c = (fr1 + fr2)
        ctx.eq(reassemble(fr1.unfuse_legs(axes=0), lu), R1, 'unfuse(fuse) of the operand that lost a sector')
    elif op == 'vdot':
        try:
            v = yastn.vdot(fr1, fr2)
        except yastn.YastnError as e:
            ctx.check(False, KNOWN_BF, f'vdot raised YastnError: {e}')
        ctx.eq([v], [(dense.conj(R1) * R2).sum()], KNOWN_BF)
    else:
        try:
            v = yastn.tensordot(fr1, fr2, axes=(0, 0), conj=(1, 0))
        except yastn.YastnError as e:
            ctx.check(False, KNOWN_BF, f'tensordot raised YastnError: {e}')
        ref = np.tensordot(dense.conj(R1), R2, axes=((0, 1), (0, 1)))
        lv = list(v.get_legs(native=True))
        ctx.eq(reassemble(v, [lu[2].conj() if lv[0].s != lu[2].s else lu[2], lu[2]]), ref, KNOWN_BF)
    return {'op': op}


def k_reject(ctx, rng, spec, cfg):
    """operations on incompatibly fused legs must raise YastnError (nothing else, no result)."""
    import yastn
    symn = spec['sym']
    mode = spec['mode']
    v = spec['variant']
    l = [cat.rand_leg(rng, symn, nsect=(1, 2), dims=(1, 2)) for _ in range(3)]
    s = [rng.choice([1, -1]) for _ in range(3)]
    n = list(cfg.sym.zero()) if cfg.sym.NSYM else []
    def mk(name, sig, legs):
        ts = cat.rand_tensor_spec(rng, symn, len(sig), s=sig, fixed={i: (sig[i], legs[i]) for i in range(len(sig))}, dims=(1, 2), max_size=200)
        if ts is None:
            ctx.skip('none')
        return cat.build(ctx, ts, name, config=cfg), ts
    a, tsa = mk('a', s, l)
    # b lives in the dual space with opposite charge, so that vdot / addition of (conjugated) operands is charge-compatible
    tsb = dict(tsa, s=[-x for x in s], n=list(gadd(cfg.sym.SYM_ID, [tuple(tsa['n'])], [1], -1)), blocks=None)
    b = cat.build(ctx, tsb, 'b', config=cfg)
    ops = []
    if v == 'tree':
        fa = a.fuse_legs(axes=((0, 1), 2), mode=mode).fuse_legs(axes=((0, 1),), mode=mode)
        fb = b.fuse_legs(axes=(0, (1, 2)), mode=mode).fuse_legs(axes=((0, 1),), mode=mode)
        ops = [lambda: yastn.tensordot(fa, fb, axes=(0, 0)), lambda: yastn.vdot(fa, fb.conj()), lambda: fa + fb.conj()]
    elif v == 'unfused-vs-fused':
        fa = a.fuse_legs(axes=((0, 1), 2), mode=mode)
        ops = [lambda: yastn.tensordot(fa, b, axes=(0, 0)), lambda: yastn.tensordot(b, fa, axes=(1, 0))]
    elif v == 'signature':
        # same tree, but one inner signature differs
        b2, _ = mk('b2', [-s[0], s[1], -s[2]], l)
        fa = a.fuse_legs(axes=((0, 1), 2), mode=mode)
        fb = b2.fuse_legs(axes=((0, 1), 2), mode=mode)
        ops = [lambda: yastn.tensordot(fa, fb, axes=(0, 0))]
    elif v == 'subdims':
        if symn in ('dense', 'none'):
            l2 = [dict(l[0]), l[1], l[2]]
            l2[0] = {'t': l[0]['t'], 'D': [l[0]['D'][0] + 1]}
        else:
            l2 = [{'t': l[0]['t'], 'D': [d + 1 for d in l[0]['D']]}, l[1], l[2]]
        tsb2 = dict(tsb, legs=l2)
        b2 = cat.build(ctx, tsb2, 'b2', config=cfg)
        fa = a.fuse_legs(axes=((0, 1), 2), mode=mode)
        fb = b2.fuse_legs(axes=((0, 1), 2), mode=mode)
        ops = [lambda: yastn.tensordot(fa, fb, axes=((0, 1), (0, 1))), lambda: fa + fb.conj(), lambda: yastn.vdot(fa, fb.conj())]
    elif v == 'subdims-equal-total':
        # same charges, sub-leg dimensions swapped (2x3 vs 3x2): equal total dimension of the fused leg, different internal layout
        if cfg.sym.NSYM:
            t0 = rng.choice(cat.window(symn))
            la_ = [{'t': [list(t0)], 'D': [2]}, {'t': [list(t0)], 'D': [3]}, l[2]]
            lb_ = [{'t': [list(t0)], 'D': [3]}, {'t': [list(t0)], 'D': [2]}, l[2]]
        else:
            la_ = [{'t': [[]], 'D': [2]}, {'t': [[]], 'D': [3]}, l[2]]
            lb_ = [{'t': [[]], 'D': [3]}, {'t': [[]], 'D': [2]}, l[2]]
        a1, ts1 = mk('a1', s, la_)
        tsb1 = dict(ts1, s=[-x for x in s], n=list(gadd(cfg.sym.SYM_ID, [tuple(ts1['n'])], [1], -1)), blocks=None, legs=lb_)
        if not cat.allowed_blocks(symn, tsb1['s'], tsb1['legs'], tsb1['n']):
            ctx.skip('none')
        b1 = cat.build(ctx, tsb1, 'b1', config=cfg)
        fa = a1.fuse_legs(axes=((0, 1), 2), mode=mode)
        fb = b1.fuse_legs(axes=((0, 1), 2), mode=mode)
        ops = [lambda: yastn.tensordot(fa, fb, axes=((0, 1), (0, 1))), lambda: yastn.tensordot(fa, fb, axes=(0, 0)), lambda: fa + fb.conj(), lambda: yastn.vdot(fa, fb.conj())]
    elif v == 'block-vs-fuse':
        # a leg obtained by blocking (direct sum, 's') against a leg obtained by hard fusion (product, 'p') with the same tree shape
        s0 = s[0]
        A1, _ = mk('A1', [s0, s[2]], [l[0], l[2]])
        A2, _ = mk('A2', [s0, s[2]], [l[1], l[2]])
        try:
            x = yastn.block({(0,): A1, (1,): A2}, common_legs=(1,))
        except yastn.YastnError:
            ctx.skip('blocks incompatible')
        y, _ = mk('y', [-s0, -s0, s[2]], [l[0], l[1], l[2]])
        fy = y.fuse_legs(axes=((0, 1), 2), mode='hard')
        ctx.check(x.get_legs(0).history()[0] == 's' and fy.get_legs(0).history()[0] == 'p', 'precondition: sum vs product history', (x.get_legs(0).history(), fy.get_legs(0).history()))
        ops = [lambda: yastn.tensordot(x, fy, axes=(0, 0)), lambda: yastn.tensordot(fy, x, axes=(0, 0)), lambda: x + fy.flip_signature() if False else yastn.tensordot(x, fy, axes=((0,), (0,)))]
    elif v == 'meta-vs-hard':
        fa = a.fuse_legs(axes=((0, 1), 2), mode='meta')
        fb = b.fuse_legs(axes=((0, 1), 2), mode='hard')
        ops = [lambda: yastn.tensordot(fa, fb, axes=(0, 0)), lambda: fa + fb.conj()]
    elif v == 'nlegs':
        fa = a.fuse_legs(axes=((0, 1, 2),), mode=mode)
        fb = b.fuse_legs(axes=((0, 1), 2), mode=mode)
        ops = [lambda: yastn.tensordot(fa, fb, axes=(0, 0))]
    for i, op in enumerate(ops):
        ctx.expect_raises(op, yastn.YastnError, f'reject:{v}[{i}]')
    return {'variant': v, 'mode': mode}
