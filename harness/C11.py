"""
C11 -- PEPS gates and their application act exactly as the dense operators.

The observation function named by the property is Peps.to_tensor(); the obligation is
        dense(to_tensor(apply_gate_(psi, g)))  ==  O_g  .  dense(to_tensor(psi))
with O_g built by the harness from the gate tensors and the documented conventions only:
  * a gate (G0, G1) is the two-site operator whose tensor in the fkron layout (ket0, bra0, ket1, bra1) is the plain contraction of the
    auxiliary legs, i.e. the matrix  sum_a X_a (x) Y_a  in the ordered two-site basis (site 0 first).  As an operator this is
    sum_a [X_a S(n(Y_a))](site0) . Y_a(site1)   (S(n): local parity string of charge n), which is then embedded with Jordan-Wigner
    strings according to the fermionic order of the PEPS sites (C07's reference);
  * an MPO gate is first-site-first in its own linear order: product terms o_0(path[0]) o_1(path[1]) ...;
  * ancilla legs are separate fermionic modes placed right after their system leg.

kinds
  apply        local / nearest-neighbour (every bond, both orientations) / two-site-with-path / 3-site MPO gates on symbolic PEPS
  ancilla      the same on purifications (physical leg = system (x) ancilla)
  add          to_tensor(add(a, b, amplitudes)) == amplitudes-weighted sum
  double       DoublePepsTensor.tensordot (lazy, corner-wise) == tensordot of fuse_layers() for the four corners, both modes, with operator
  closed_form  predefined gates: the tensor handed to decompose_nn_gate / Gate_local equals the spectral formula of exp(-step H) with
               cosh/sinh/exp as uninterpreted functions of the same arguments (H^3 = x^2 H etc. checked as polynomial identities; the
               spectral lemma itself is cited), generic exponentials: wiring U f(D) U^dagger around the eigh contract stub
  split        decompose_nn_gate: plain contraction of (G0, G1) over the auxiliary leg reproduces the two-site gate (SVD contract stub)
"""
from __future__ import annotations
import itertools
from fractions import Fraction
import numpy as np
from symx import catalogue as cat
from symx import dense
from symx.dense import reassemble
from symx.wellformed import wellformed
from .common import rng_of
from .C01 import hash_seed
from .C07 import JW as _JW1, _kron, _matmul, _exact, make_ops as _make_ops, _fss

PROPERTY = 'C11'
FUNCTIONS = ['Peps.apply_gate_', 'apply_gate_onsite', 'match_ancilla', 'gate_fix_swap_gate', 'gate_from_mpo', 'fill_eye_in_gate', 'Peps.to_tensor', 'fpeps.add',
             'DoublePepsTensor.tensordot / fuse_layers / append_vec_*', 'gates.gate_nn_hopping/Ising/Heisenberg/tJ, gate_local_Coulomb/occupation/field, gate_nn_exp, gate_local_exp, decompose_nn_gate']
ASSUMPTIONS = ['exact arithmetic', 'LAPACK svd/eigh contracts (split / generic exponentials)', 'cosh, sinh, exp are uninterpreted functions: closed forms are compared with the spectral formula term by term',
               'cited, not re-proved: exp(xK) = 1 + (cosh x - 1) K^2 + sinh x K for K^3 = K; exp(xX) = cosh x + sinh x X for X^2 = 1; exp(a n) = 1 + (e^a - 1) n for n^2 = n; spectral theorem']
OUTSIDE = ['cylinders (to_tensor contracts open boundaries only)', 'lattices with more than 6 sites', 'exp as a real function (floating transcendental)', 'gate sequences longer than 2']
BOUNDS = {'quick': {'lattices': ['1x2', '2x1', '2x2', '1x3', '3x1', '2x3 (2 symbolic sites)'], 'bond dimension': '1..2', 'families': ['spinless Z2/U1', 'spinful U1xU1/Z2', 'spin-1/2 Z2/dense']},
          'thorough': {'as quick': 'more repetitions'}}
OPTS = {'quick': {'max_paths': 300, 'query_timeout_ms': 60000, 'case_deadline_s': 300}, 'thorough': {'max_paths': 1000, 'query_timeout_ms': 120000, 'case_deadline_s': 900}}
FLOAT_XVAL = {'quick': 0.5, 'thorough': 0.5}

FAMS = [('spinless', 'Z2'), ('spinless', 'U1'), ('spinful', 'U1xU1'), ('spinful', 'Z2'), ('spin12', 'Z2'), ('spin12', 'dense')]
LATS = [(1, 2), (2, 1), (2, 2), (1, 3), (3, 1), (2, 3)]


def cases(tier, seed):
    out = []
    reps = 1 if tier == 'quick' else 300
    for rep in range(reps):
        for i, row in enumerate(cat.covering({'fam': list(range(len(FAMS))), 'lat': list(range(len(LATS))), 'gate': ['local', 'local_odd', 'nn', 'nn_rev', 'path2', 'mpo3'], 'anc': [False, False, True],
                                              'dtype': ['real', 'complex']}, seed=seed * 3 + rep, strength=2)):
            c = dict(row)
            c.update(kind='apply', tier=tier, id=f'apply-{rep}-{i}', seed=hash_seed(seed, 'C11', 'apply', rep, i))
            out.append(c)
        for i, row in enumerate(cat.covering({'fam': list(range(len(FAMS))), 'lat': [0, 1, 2], 'nstates': [2, 3]}, seed=seed * 5 + rep, strength=2)):
            c = dict(row)
            c.update(kind='add', tier=tier, id=f'add-{rep}-{i}', seed=hash_seed(seed, 'C11', 'add', rep, i))
            out.append(c)
        for i, row in enumerate(cat.covering({'fam': list(range(len(FAMS))), 'corner': ['tl', 'br', 'tr', 'bl'], 'reverse': [False, True], 'op': [False, True], 'trans': list(range(8))}, seed=seed * 7 + rep, strength=2)):
            c = dict(row)
            c.update(kind='double', tier=tier, id=f'double-{rep}-{i}', seed=hash_seed(seed, 'C11', 'double', rep, i))
            out.append(c)
    for g in ['hopping', 'Ising', 'occupation', 'field', 'Coulomb', 'Heisenberg_H', 'tJ_H', 'nn_exp', 'local_exp']:
        for symn in ('Z2', 'U1', 'dense'):
            for stepkind in ('real', 'complex'):
                out.append({'kind': 'closed_form', 'gate': g, 'sym': symn, 'step': stepkind, 'tier': tier, 'id': f'closed-{g}-{symn}-{stepkind}', 'seed': hash_seed(seed, 'C11', g, symn, stepkind)})
    for i, fam in enumerate(range(len(FAMS))):
        out.append({'kind': 'split', 'fam': fam, 'tier': tier, 'id': f'split-{i}', 'seed': hash_seed(seed, 'C11', 'split', i)})
    return out


def run(ctx, spec):
    return globals()['k_' + spec['kind']](ctx, spec)


# ----------------------------------------------------------------------------------------------------------------------

class Modes:
    """Jordan-Wigner reference on an ordered list of fermionic modes (legs), each with its own space"""
    def __init__(self, ctx, cfg, legs, rank=None):
        self.ctx, self.cfg, self.legs = ctx, cfg, legs
        self.rank = list(range(len(legs))) if rank is None else list(rank)     # position of every mode (tensor axis) in the fermionic order
        self.fss = _fss(cfg)
        self.sym = ctx.mode == 'sym'
        self.dt = object if self.sym else np.complex128
        self.dims = [sum(l.D) for l in legs]
        self.states = [[t for t, D in zip(l.t, l.D) for _ in range(D)] for l in legs]

    def one(self, k):
        d = self.dims[k]
        S = np.zeros((d, d), dtype=self.dt)
        for i in range(d):
            S[i, i] = Fraction(1) if self.sym else 1
        return S

    def string(self, k, n_op):
        d = self.dims[k]
        S = np.zeros((d, d), dtype=self.dt)
        for i, t in enumerate(self.states[k]):
            e = sum(n_op[c] * t[c] for c in range(len(self.fss)) if self.fss[c]) % 2 if any(self.fss) else 0
            S[i, i] = Fraction(1 - 2 * e) if self.sym else 1 - 2 * e
        return S

    def apply(self, X, mat, n_op, k):
        """(Jordan-Wigner embedded `mat` of charge n_op on mode k) applied to the state array X (one axis per mode), mode by mode"""
        odd = any(self.fss) and any(n_op[c] % 2 for c in range(len(self.fss)) if self.fss[c])
        Y = X
        if odd:
            for j in range(len(self.legs)):
                if j != k and self.rank[j] < self.rank[k]:
                    sg = np.array([1 - 2 * (sum(n_op[c] * t[c] for c in range(len(self.fss)) if self.fss[c]) % 2) for t in self.states[j]], dtype=object if self.sym else float)
                    sh = [1] * Y.ndim
                    sh[j] = len(sg)
                    Y = Y * sg.reshape(sh)
        Y = np.moveaxis(np.tensordot(mat, Y, axes=(1, k)), 0, k)
        return Y

    def embed(self, mat, n_op, k):
        """matrix `mat` of charge n_op acting on mode k"""
        odd = any(self.fss) and any(n_op[c] % 2 for c in range(len(self.fss)) if self.fss[c])
        mats = [mat if j == k else (self.string(j, n_op) if (odd and self.rank[j] < self.rank[k]) else self.one(j)) for j in range(len(self.legs))]
        out = mats[0]
        for m in mats[1:]:
            out = _kron(out, m)
        return out


def _dense_local(ctx, t, legs):
    X = reassemble(t, legs)
    if ctx.mode == 'sym':
        Y = np.empty(X.shape, dtype=object)
        for idx in np.ndindex(X.shape):
            Y[idx] = _exact(X[idx], True)
        return Y
    return X.astype(np.complex128)


def _aux_slices(ctx, G, ph, pos_aux):
    """operator-valued components of a gate tensor with legs (ket, bra, aux...): list of (index tuple of the aux legs, matrix, charge of the matrix)"""
    legs = list(G.get_legs(native=True))
    full = [ph, ph.conj()] + legs[2:]
    X = _dense_local(ctx, G, full)
    aux = legs[2:]
    out = []
    cfg = G.config
    nsym = cfg.sym.NSYM
    for idx in itertools.product(*[range(sum(l.D)) for l in aux]):
        M = X[(slice(None), slice(None)) + idx]
        # charge of the matrix: n_G - sum_aux s t   (harness group law on the integers; parity is all that matters for the strings)
        n = list(G.n) if nsym else []
        for l, i in zip(aux, idx):
            t = [tt for tt, D in zip(l.t, l.D) for _ in range(D)][i]
            n = [a - l.s * b for a, b in zip(n, t)]
        out.append((idx, M, tuple(n)))
    return out


def _is_zero(M):
    return all((isinstance(x, (int, Fraction)) and x == 0) or (isinstance(x, (float, complex, np.number)) and x == 0) for x in M.flat)


def _gate_apply(ctx, modes, G, mode_idx, ph, X):
    """(dense operator of a gate given as a list of tensors acting on the modes mode_idx, first-site-first convention) applied to X"""
    m = len(G)
    comps = [_aux_slices(ctx, g, ph, None) for g in G]
    loc = Modes(ctx, modes.cfg, [ph])
    if m == 1:
        (idx, M, n), = comps[0]
        return modes.apply(X, M, n, mode_idx[0])
    total = None
    def rec(j, vprev, acc_mats):
        nonlocal total
        for idx, M, n in comps[j]:
            if _is_zero(M):
                continue
            if j == 0:
                vnext = idx[0]
            elif j < m - 1:
                if idx[0] != vprev:
                    continue
                vnext = idx[1]
            else:
                if idx[0] != vprev:
                    continue
                vnext = None
            mats = acc_mats + [(M, n)]
            if j == m - 1:
                # plain kron X^0 (x) X^1 (x) ... in the ordered m-site basis  ==  prod_j [X^j S(sum_{i>j} n_i)](site_j); applied right to left
                Y = X
                for jj in range(len(mats) - 1, -1, -1):
                    Mj, nj = mats[jj]
                    nr = [0] * len(nj)
                    for (_, ni) in mats[jj + 1:]:
                        nr = [a + b for a, b in zip(nr, ni)]
                    if len(nj) and any(modes.fss):
                        Mj = _matmul(Mj, loc.string(0, nr))
                    Y = modes.apply(Y, Mj, nj, mode_idx[jj])
                total = Y if total is None else total + Y
            else:
                rec(j + 1, vnext, mats)
    rec(0, None, [])
    if total is None:
        total = X * 0
    return total


def _setup(ctx, spec, anc=False):
    import yastn
    import yastn.tn.fpeps as fpeps
    fam, symn = FAMS[spec['fam']]
    cfg0 = cat.make_config('dense')
    ops = _make_ops(fam, symn, cfg0.backend)
    Nx, Ny = LATS[spec['lat']]
    geo = fpeps.SquareLattice(dims=(Nx, Ny), boundary='obc')
    return fam, symn, ops, geo


def _sym_peps(ctx, rng, ops, geo, name, anc, dtype, symbolic_sites=None, D=2):
    """product-state structure enlarged to bond dimension <= D with random sectors, every (chosen) tensor symbolic"""
    import yastn
    import yastn.tn.fpeps as fpeps
    cfg = ops.config
    ph = ops.space()
    sites = geo.sites()
    # virtual legs: per bond a leg with 1..2 sectors of dimension 1 (charges drawn from differences of physical charges)
    nsym = cfg.sym.NSYM
    def vleg():
        if nsym == 0:
            return yastn.Leg(cfg, s=1, D=(rng.choice([1, 2]),))
        cands = sorted({tuple(cfg.sym.add_charges(a, b, signatures=(1, -1))) for a in ph.t for b in ph.t})
        ts = sorted(rng.sample(cands, min(len(cands), rng.choice([1, 2]))))
        return yastn.Leg(cfg, s=1, t=ts, D=[1] * len(ts))
    one = yastn.Leg(cfg, s=1, t=[cfg.sym.zero()], D=[1]) if nsym else yastn.Leg(cfg, s=1, D=(1,))
    bl = {}
    for b in geo.bonds():
        bl[b] = vleg()
    psi = fpeps.Peps(geo)
    anc_legs = {}
    k = 0
    for s in sites:
        t_ = geo.nn_site(s, 't'); l_ = geo.nn_site(s, 'l'); b_ = geo.nn_site(s, 'b'); r_ = geo.nn_site(s, 'r')
        lt = bl[(t_, s)].conj() if t_ is not None else one.conj()
        ll = bl[(l_, s)].conj() if l_ is not None else one.conj()
        lb = bl[(s, b_)] if b_ is not None else one
        lr = bl[(s, r_)] if r_ is not None else one
        # every PEPS tensor has charge ZERO (fermionic PEPS are built from even tensors): purification = full ancilla leg; pure state = a
        # one-dimensional ancilla leg carrying the offsetting charge, exactly as fpeps.product_peps builds them (vector.add_leg(s=-1))
        if anc:
            cand_anc = [ph.conj()]
        elif nsym == 0:
            cand_anc = [yastn.Leg(cfg, s=-1, D=(1,))]
        else:
            cs = sorted({tuple(cfg.sym.add_charges(a, b, signatures=(1, -1))) for a in ph.t for b in ph.t} | set(ph.t))
            rng.shuffle(cs)
            cand_anc = [yastn.Leg(cfg, s=-1, t=[c], D=[1]) for c in cs]
        best = None
        for al in cand_anc:
            t = yastn.zeros(config=cfg, legs=[lt, ll, lb, lr, ph, al])
            if t.size > 0 and (best is None or t.size > best[0].size):
                best = (t, al)
        if best is None:
            ctx.skip('no admissible PEPS tensor')
        t, al = best
        anc_legs[s] = al
        if symbolic_sites is None or k in symbolic_sites:
            ctx.fill(t, f'{name}{k}', dtype)
        else:
            from .mpscommon import const_data
            t._data = const_data(ctx, rng, t.size, dtype == 'complex')
        psi[s] = t.fuse_legs(axes=(0, 1, 2, 3, (4, 5)))
        k += 1
    return psi, anc_legs


def _dense_state(ctx, psi, ph, anc_legs, sites_f):
    """dense array of to_tensor() (the observation function of the property): axes (s0, a0, s1, a1, ...) in the PEPS fermionic order"""
    T = psi.to_tensor()
    legs = []
    for s in sites_f:
        legs += [ph, anc_legs[s]]
    if T.ndim != len(legs):
        ctx.check(False, 'to_tensor: one system and one ancilla leg per site', (T.ndim, len(legs)))
    return _dense_local(ctx, T, legs), legs


def _apply_dense(O, X):
    sh = X.shape
    v = X.reshape(-1, 1)
    r = _matmul(O, v) if O.dtype == object else O @ v
    return r.reshape(sh)


def _f_order(geo):
    sites = list(geo.sites())
    import functools
    return sorted(sites, key=functools.cmp_to_key(lambda a, b: 0 if a == b else (-1 if geo.f_ordered(a, b) else 1)))


def _sym_gate(ctx, rng, cfg, ph, which, name='g'):
    """symbolic-entry gate tensors with the leg conventions of decompose_nn_gate (aux leg of G0: s=-1, of G1: s=+1)"""
    import yastn
    nsym = cfg.sym.NSYM
    if which == 'local':
        g = yastn.zeros(config=cfg, legs=[ph, ph.conj()])
        return [ctx.fill(g, name, 'real')]
    if which == 'local_odd':
        if nsym == 0:
            g = yastn.zeros(config=cfg, legs=[ph, ph.conj()])
            return [ctx.fill(g, name, 'real')]
        for n in sorted({tuple(cfg.sym.add_charges(a, b, signatures=(1, -1))) for a in ph.t for b in ph.t}, key=lambda x: (-sum(abs(y) for y in x), x)):
            if n == tuple(cfg.sym.zero()):
                continue
            g = yastn.zeros(config=cfg, legs=[ph, ph.conj()], n=n)
            if g.size:
                return [ctx.fill(g, name, 'real')]
        ctx.skip('no charged local operator')
    # aux leg: charges of the operators that can hop: differences of physical charges
    if nsym == 0:
        aux = yastn.Leg(cfg, s=-1, D=(rng.choice([2, 3]),))
    else:
        cands = sorted({tuple(cfg.sym.add_charges(a, b, signatures=(1, -1))) for a in ph.t for b in ph.t})
        ts = sorted(rng.sample(cands, min(len(cands), rng.choice([2, 3]))))
        aux = yastn.Leg(cfg, s=-1, t=ts, D=[1] * len(ts))
    g0 = yastn.zeros(config=cfg, legs=[ph, ph.conj(), aux])
    g1 = yastn.zeros(config=cfg, legs=[ph, ph.conj(), aux.conj()])
    if g0.size == 0 or g1.size == 0:
        ctx.skip('empty gate')
    return [ctx.fill(g0, name + '0', 'real'), ctx.fill(g1, name + '1', 'real')]


def k_apply(ctx, spec):
    import yastn
    import yastn.tn.fpeps as fpeps
    import yastn.tn.mps as mps
    rng = rng_of(spec)
    fam, symn, ops, geo = _setup(ctx, spec)
    cfg, ph = ops.config, ops.space()
    anc = spec['anc']
    sites_f = _f_order(geo)
    nsites = len(sites_f)
    d = sum(ph.D)
    nmodes = 2 * nsites
    dim = d ** nsites * (d ** nsites if anc else 1)
    if dim > 256:
        ctx.skip('dense state too large')
    symb = None if dim <= 32 else set(rng.sample(range(nsites), 2))
    psi, anc_legs = _sym_peps(ctx, rng, ops, geo, 'p', anc, spec['dtype'], symbolic_sites=symb)
    X0, legs = _dense_state(ctx, psi, ph, anc_legs, sites_f)
    # fermionic order of the modes of to_tensor(): the tensor axes are (s0, a0, s1, a1, ..) but to_tensor() swaps every ancilla leg with all
    # later legs, i.e. the ancillas follow ALL system modes (in reverse order); system modes are in the PEPS fermionic order
    rank = [(k // 2 if k % 2 == 0 else 2 * nsites - 1 - k // 2) for k in range(nmodes)]
    modes = Modes(ctx, cfg, legs, rank)
    mode_of = {s: 2 * k for k, s in enumerate(sites_f)}
    gate = spec['gate']
    bonds = list(geo.bonds())
    if gate == 'local_odd':
        # a CHARGED operator without an auxiliary leg is not a gate (gates are exponentials of even Hamiltonians; the odd components of a
        # two-site gate carry their charge on the auxiliary leg).  It leaves a site tensor of odd charge, for which the sign convention of
        # to_tensor() is not defined by the property (seed 1 showed site-dependent signs): outside the statement, replaced by an even local gate
        gate = 'local'
    # the same symbolic PEPS receives the gate at several placements (each on its own shallow copy)
    if gate == 'local':
        G = _sym_gate(ctx, rng, cfg, ph, 'local')
        placements = [((s0,), tuple(G)) for s0 in rng.sample(sites_f, min(2, nsites))]
    elif gate in ('nn', 'nn_rev'):
        G = _sym_gate(ctx, rng, cfg, ph, 'nn')
        bs = rng.sample(bonds, min(3, len(bonds)))
        placements = [((tuple(b) if gate == 'nn' else tuple(b[::-1])), tuple(G)) for b in bs]
    elif gate == 'path2':
        paths = _paths(geo, 3)
        if not paths:
            ctx.skip('no 3-site path')
        G = _sym_gate(ctx, rng, cfg, ph, 'nn')
        placements = [(tuple(pth), tuple(G)) for pth in rng.sample(paths, min(4, len(paths)))]
    else:   # 3-site (or 2-site) MPO gate: a product term with symbolic amplitude, first MPO site first in the MPO's own order
        L = 3 if nsites >= 3 else 2
        paths = _paths(geo, L)
        if not paths:
            ctx.skip('no path')
        names = {k: f(0) for k, f in ops.to_dict().items() if _try(f)}
        keys = [k for k in names if k != 'I' and names[k].ndim == 2 and not _irr(names[k])]
        fss = _fss(cfg)
        oddk = [k for k in keys if any(fss) and any(names[k].n[c] % 2 for c in range(len(fss)) if fss[c])]
        for _ in range(200):
            # a gate is an even operator (exponential of an even Hamiltonian): total parity even in every fermionic component
            if oddk and rng.random() < 0.6:
                # odd operators on the two END sites: the middle tensor of the MPO then carries an odd virtual charge
                opn = [rng.choice(oddk), rng.choice(oddk)] + ([rng.choice(keys)] if rng.random() < 0.3 else [])
                pos = [0, L - 1] + ([rng.randrange(L)] if len(opn) == 3 else [])
            else:
                opn = [rng.choice(keys) for _ in range(rng.choice([1, 2, 2, 3, 4]))]
                pos = [rng.randrange(L) for _ in opn]
            if not any(fss) or all(sum(names[k].n[c] for k in opn) % 2 == 0 for c in range(len(fss)) if fss[c]):
                break
        else:
            ctx.skip('no even product found')
        amp = ctx.scalar('amp', 'real')
        H = mps.generate_mpo(mps.product_mpo(ops.I(), L), [mps.Hterm(amp, tuple(pos), tuple(names[k] for k in opn))])
        if any(H[n].size == 0 for n in range(L)):
            ctx.skip('vanishing product')
        # the separated factor of an MPO belongs to the operator (scalar x MPO, -MPO)
        fac = rng.choice([1, Fraction(5, 2), -1, Fraction(-1, 2)])
        fac = fac if ctx.mode == 'sym' else float(fac)
        if fac != 1:
            H = fac * H
        placements = [(tuple(pth), H) for pth in rng.sample(paths, min(4, len(paths)))]
    done = []
    for gsites, GG in placements:
        g = fpeps.gates.Gate(G=GG, sites=gsites)
        phi = psi.shallow_copy()
        phi.apply_gate_(g)
        for s in geo.sites():
            wellformed(ctx, phi[s], f'apply_gate_: tensor at {s}', check_dense_zero=False)
        X1, legs1 = _dense_state(ctx, phi, ph, anc_legs, sites_f)
        # reference: the gate operator applied to the dense state mode by mode
        if gate == 'mpo3':
            ref = X0
            for k, p_ in list(zip(opn, pos))[::-1]:
                M = _dense_local(ctx, names[k], [ph, ph.conj()])
                ref = modes.apply(ref, M, tuple(names[k].n), mode_of[gsites[p_]])
            ref = ref * amp * fac
        elif gate == 'path2':
            ref = _gate_apply(ctx, modes, list(g.G), [mode_of[gsites[0]], mode_of[gsites[-1]]], ph, X0)
        else:
            ref = _gate_apply(ctx, modes, list(g.G), [mode_of[s] for s in gsites], ph, X0)
        ctx.eq(X1, ref, f'to_tensor(apply_gate_({gate} on {gsites}, ancilla={anc})) == dense gate . to_tensor(psi)')
        done.append(gsites)
    return {'fam': fam, 'sym': symn, 'lat': LATS[spec['lat']], 'gate': gate, 'placements': done, 'anc': anc}


def _try(f):
    try:
        f(0)
        return True
    except Exception:
        return False


def _irr(t):
    from .C07 import _irrational
    return _irrational(t)


def _paths(geo, L):
    sites = list(geo.sites())
    out = []
    def nb(s):
        return [x for x in (geo.nn_site(s, d) for d in 'tlbr') if x is not None]
    def rec(path):
        if len(path) == L:
            out.append(list(path))
            return
        for x in nb(path[-1]):
            if x not in path:
                rec(path + [x])
    for s in sites:
        rec([s])
    return out


def k_add(ctx, spec):
    import yastn.tn.fpeps as fpeps
    rng = rng_of(spec)
    fam, symn, ops, geo = _setup(ctx, spec)
    ph = ops.space()
    n = spec['nstates']
    d = sum(ph.D)
    nsites = len(geo.sites())
    if d ** nsites > 64:
        ctx.skip('too large')
    # states of the same total charge: the same structure, different symbols
    seed_rng = rng.random()
    import random
    states = []
    sites_f = _f_order(geo)
    anc_legs = None
    for k in range(n):
        r2 = random.Random(seed_rng)
        st, al = _sym_peps(ctx, r2, ops, geo, f's{k}_', False, 'real')
        states.append(st)
        anc_legs = al
    amps = [ctx.scalar(f'a{k}', 'real') for k in range(n)]
    tot = fpeps.add(*states, amplitudes=amps)
    X, _ = _dense_state(ctx, tot, ph, anc_legs, sites_f)
    ref = None
    for a, s_ in zip(amps, states):
        Y, _ = _dense_state(ctx, s_, ph, anc_legs, sites_f)
        ref = Y * a if ref is None else ref + Y * a
    ctx.eq(X, ref, 'to_tensor(add(states, amplitudes)) == weighted sum of to_tensor(state)')
    Y2, _ = _dense_state(ctx, states[0] + states[1], ph, anc_legs, sites_f)
    ctx.eq(Y2, _dense_state(ctx, states[0], ph, anc_legs, sites_f)[0] + _dense_state(ctx, states[1], ph, anc_legs, sites_f)[0], 'a + b')
    return {'fam': fam, 'sym': symn, 'n': n}


_TRANS = ((0, 1, 2, 3), (1, 2, 3, 0), (2, 3, 0, 1), (3, 0, 1, 2), (0, 3, 2, 1), (1, 0, 3, 2), (2, 1, 0, 3), (3, 2, 1, 0))


def k_double(ctx, spec):
    """lazy corner-wise contraction of a two-layer PEPS tensor == contraction of its explicitly fused form"""
    import yastn
    from yastn.tn.fpeps._doublePepsTensor import DoublePepsTensor
    rng = rng_of(spec)
    fam, symn = FAMS[spec['fam']]
    cfg0 = cat.make_config('dense')
    ops = _make_ops(fam, symn, cfg0.backend)
    cfg, ph = ops.config, ops.space()
    nsym = cfg.sym.NSYM
    def vleg(s):
        if nsym == 0:
            return yastn.Leg(cfg, s=s, D=(rng.choice([1, 2]),))
        cands = sorted({tuple(cfg.sym.add_charges(a, b, signatures=(1, -1))) for a in ph.t for b in ph.t})
        ts = sorted(rng.sample(cands, min(len(cands), 2)))
        return yastn.Leg(cfg, s=s, t=ts, D=[1] * len(ts))
    legs = [vleg(-1), vleg(-1), vleg(1), vleg(1), ph]
    A = None
    for _ in range(20):      # two-layer contractions require PEPS tensors of zero charge
        legs = [vleg(-1), vleg(-1), vleg(1), vleg(1), ph]
        t = yastn.zeros(config=cfg, legs=legs)
        if t.size and (A is None or t.size > A.size) and t.size <= 64:
            A = t
    if A is None or A.size > 64:
        ctx.skip('no / large tensor')
    ctx.fill(A, 'A', 'real')
    op = None
    if spec['op']:
        op = yastn.zeros(config=cfg, legs=[ph, ph.conj()])
        ctx.fill(op, 'o', 'real')
    trans = _TRANS[spec['trans']]
    dt = DoublePepsTensor(bra=A, ket=A, trans=trans, op=op)
    full = dt.fuse_layers()
    # a vector with two legs matching the two contracted (neighbouring) legs of the corner + one extra leg
    corner = {'tl': (0, 1), 'br': (2, 3), 'tr': (0, 3), 'bl': (1, 2)}[spec['corner']]
    # positions of the reference legs in the transposed order
    axes_a = tuple(trans.index(c) for c in corner)
    la = [full.get_legs(ax) for ax in axes_a]
    extra = vleg(1)
    vec = yastn.zeros(config=cfg, legs=[extra, la[0].conj(), la[1].conj()])
    if vec.size == 0 or vec.size > 200:
        ctx.skip('no / large vector')
    ctx.fill(vec, 'v', 'real')
    if spec['reverse']:
        lazy = dt.tensordot(vec, axes=((1, 2), axes_a), reverse=True)
        ref = yastn.tensordot(vec, full, axes=((1, 2), axes_a))
    else:
        lazy = dt.tensordot(vec, axes=(axes_a, (1, 2)))
        ref = yastn.tensordot(full, vec, axes=(axes_a, (1, 2)))
    ctx.check(lazy.ndim == ref.ndim and tuple(lazy.get_signature()) == tuple(ref.get_signature()), 'DoublePepsTensor.tensordot: same legs (rank, signature) as for the fused tensor')
    def unfuse_all(t):
        # the fused legs [t t'] ... of the two results may keep different parts of the product sectors: compare on the unfused components
        for _ in range(6):
            ax = [i for i, l in enumerate(t.get_legs()) if l.is_fused()]
            if not ax:
                break
            t = t.unfuse_legs(axes=ax)
        return t
    lazy, ref = unfuse_all(lazy), unfuse_all(ref)
    lu = list(ref.get_legs(native=True))
    ctx.check(tuple(lazy.get_signature(native=True)) == tuple(ref.get_signature(native=True)) and lazy.n == ref.n, 'DoublePepsTensor.tensordot: signature / charge as for the fused tensor')
    from .C05 import _u
    lz = list(lazy.get_legs(native=True))
    ctx.check(len(lz) == len(lu), 'same number of native legs', (len(lz), len(lu)))
    U = [_u(x, y) for x, y in zip(lz, lu)]
    ctx.eq(reassemble(lazy, U), reassemble(ref, U), f'DoublePepsTensor.tensordot(corner {spec["corner"]}, reverse={spec["reverse"]}, op={spec["op"]}, trans={trans}) == tensordot(fuse_layers())')
    return {'fam': fam, 'sym': symn, 'corner': spec['corner']}


def k_split(ctx, spec):
    """decompose_nn_gate: (G0, G1) contracted over the auxiliary leg reproduce the two-site gate; leg conventions of Gate_nn"""
    import yastn
    import yastn.tn.fpeps as fpeps
    rng = rng_of(spec)
    fam, symn = FAMS[spec['fam']]
    cfg0 = cat.make_config('dense')
    ops = _make_ops(fam, symn, cfg0.backend)
    cfg, ph = ops.config, ops.space()
    Gnn = yastn.zeros(config=cfg, legs=[ph, ph.conj(), ph, ph.conj()])
    if sum(ph.D) > 2 and ctx.mode == 'sym':
        ctx.skip('local dimension 4: the sign/ordering forks of the block SVDs exceed the path budget (float cross-run only)')
    if Gnn.size > 40:
        # large local spaces: a gate supported on a few blocks only
        keep = rng.sample(list(Gnn.struct.t), 4)
        G2 = yastn.Tensor(config=cfg, s=Gnn.s, n=Gnn.n)
        nsym = cfg.sym.NSYM
        for tt, DD in zip(Gnn.struct.t, Gnn.struct.D):
            if tt in keep:
                G2.set_block(ts=tt, Ds=DD, val='zeros')
        Gnn = G2
    ctx.fill(Gnn, 'G', 'real')
    # decompose_nn_gate truncates with tol=1e-14 (a floating-point tolerance): paths on which a NON-ZERO singular value falls below it are
    # outside the exact statement; they are excluded by an assumption on the (memoised, hence identical) singular values of the same SVD
    if ctx.mode == 'sym':
        import z3
        from symx.core import SV
        _, S0, _ = yastn.linalg.svd(Gnn, axes=((0, 1), (2, 3)), sU=-1, Vaxis=2)
        svals = [x.e for x in S0._data if isinstance(x, SV)]
        if svals:
            mx = svals[0]
            for x in svals[1:]:
                mx = z3.If(x > mx, x, mx)
            for x in svals:
                ctx.assume(z3.Or(x == 0, x * 10 ** 14 > mx))
    g = fpeps.gates.decompose_nn_gate(Gnn, bond=((0, 0), (0, 1)))
    ctx.check(isinstance(g, fpeps.gates.Gate) and len(g.G) == 2 and g.sites == ((0, 0), (0, 1)), 'decompose_nn_gate returns a two-tensor Gate on the bond')
    G0, G1 = g.G
    ctx.check(G0.ndim == 3 and G1.ndim == 3 and G0.get_legs(2) == G1.get_legs(2).conj(), 'auxiliary legs are third and dual to each other')
    back = yastn.tensordot(G0, G1, axes=(2, 2))          # k0 b0 k1 b1
    full = [ph, ph.conj(), ph, ph.conj()]
    ctx.eq(reassemble(back, full), reassemble(Gnn, full), 'G0 . G1 over the auxiliary leg == two-site gate (singular values below tol=1e-14 excluded by the path)')
    return {'fam': fam, 'sym': symn}


def k_closed_form(ctx, spec):
    import yastn
    import yastn.tn.fpeps as fpeps
    import yastn.tn.fpeps.gates as GT
    rng = rng_of(spec)
    gate, symn = spec['gate'], spec['sym']
    cfg0 = cat.make_config('dense')
    captured = {}
    old = GT.decompose_nn_gate
    GT.decompose_nn_gate = lambda G, bond=None: captured.setdefault('G', G) and GT.Gate_nn(None, None, bond)
    try:
        return _closed(ctx, spec, rng, gate, symn, cfg0, captured, GT)
    finally:
        GT.decompose_nn_gate = old


def _two_site(ctx, cfg, ph):
    return Modes(ctx, cfg, [ph, ph])


def _fk(M):
    """matrix rows (out0,out1) cols (in0,in1) -> fkron layout (out0,in0,out1,in1)"""
    d = int(round(M.shape[0] ** 0.5))
    return M.reshape(d, d, d, d).transpose(0, 2, 1, 3)


def _closed(ctx, spec, rng, gate, symn, cfg0, captured, GT):
    import yastn
    t = ctx.scalar('t', 'real')
    step = ctx.scalar('step', spec.get('step', 'real'))        # real, or complex (imaginary-time / real-time / mixed steps)
    sym_mode = ctx.mode == 'sym'
    cosh = (lambda x: x.cosh()) if sym_mode else np.cosh
    sinh = (lambda x: x.sinh()) if sym_mode else np.sinh
    exp = (lambda x: x.exp()) if sym_mode else np.exp
    full4 = lambda ph: [ph, ph.conj(), ph, ph.conj()]
    if gate == 'hopping':
        if symn == 'dense':
            ctx.skip('fermions need a parity symmetry')
        ops = yastn.operators.SpinlessFermions(sym=symn, backend=cfg0.backend)
        ph = ops.space()
        GT.gate_nn_hopping(t, step, ops.I(), ops.c(), ops.cp())
        G = reassemble(captured['G'], full4(ph))
        m = _two_site(ctx, ops.config, ph)
        c, cp = _dense_local(ctx, ops.c(), [ph, ph.conj()]), _dense_local(ctx, ops.cp(), [ph, ph.conj()])
        K = _matmul(m.embed(cp, tuple(ops.cp().n), 0), m.embed(c, tuple(ops.c().n), 1)) + _matmul(m.embed(cp, tuple(ops.cp().n), 1), m.embed(c, tuple(ops.c().n), 0))
        K2 = _matmul(K, K)
        ctx.eq(_matmul(K2, K), K, 'hopping: K^3 == K  (K = c+_0 c_1 + c+_1 c_0)')
        x = t * step
        I4 = m.embed(m.one(0), tuple(ops.I().n), 0)
        ref = I4 + K2 * (cosh(x) - 1) + K * sinh(x)         # exp(-step H), H = -t K
        ctx.eq(G, _fk(ref), 'gate_nn_hopping == 1 + (cosh(t step) - 1) K^2 + sinh(t step) K  (= exp(-step H) for K^3 = K)')
    elif gate == 'Ising':
        if symn == 'U1':
            ctx.skip('X is not U1-symmetric')
        ops = yastn.operators.Spin12(sym=symn, backend=cfg0.backend)
        ph = ops.space()
        GT.gate_nn_Ising(t, step, ops.I(), ops.x())
        G = reassemble(captured['G'], full4(ph))
        m = _two_site(ctx, ops.config, ph)
        X = _dense_local(ctx, ops.x(), [ph, ph.conj()])
        XX = _matmul(m.embed(X, tuple(ops.x().n), 0), m.embed(X, tuple(ops.x().n), 1))
        I4 = m.embed(m.one(0), tuple(ops.I().n), 0)
        ctx.eq(_matmul(XX, XX), I4, 'Ising: (X_0 X_1)^2 == 1')
        x = t * step
        ctx.eq(G, _fk(I4 * cosh(x) - XX * sinh(x)), 'gate_nn_Ising == cosh(J step) - sinh(J step) X_0 X_1  (= exp(-step J X X))')
    elif gate in ('occupation', 'field', 'Coulomb'):
        if gate == 'field':
            if symn != 'dense':
                ctx.skip('X carries charge: 1 + X is not a symmetric tensor')
            ops = yastn.operators.Spin12(sym=symn, backend=cfg0.backend)
            ph = ops.space()
            g = GT.gate_local_field(t, step, ops.I(), ops.x(), site=(0, 0))
            X = _dense_local(ctx, ops.x(), [ph, ph.conj()])
            I2 = Modes(ctx, ops.config, [ph]).one(0)
            ctx.eq(_matmul(X, X), I2, 'field: X^2 == 1')
            x = t * step
            ctx.eq(reassemble(g.G[0], [ph, ph.conj()]), I2 * cosh(x) + X * sinh(x), 'gate_local_field == cosh(h step) + sinh(h step) X  (= exp(step h X))')
        elif gate == 'occupation':
            if symn == 'dense':
                ctx.skip('fermions need a parity symmetry')
            ops = yastn.operators.SpinlessFermions(sym=symn, backend=cfg0.backend)
            ph = ops.space()
            g = GT.gate_local_occupation(t, step, ops.I(), ops.n(), site=(0, 0))
            n = _dense_local(ctx, ops.n(), [ph, ph.conj()])
            I2 = Modes(ctx, ops.config, [ph]).one(0)
            ctx.eq(_matmul(n, n), n, 'occupation: n^2 == n')
            ctx.eq(reassemble(g.G[0], [ph, ph.conj()]), I2 + n * (exp(t * step) - 1), 'gate_local_occupation == 1 + (e^{mu step} - 1) n  (= exp(step mu n))')
        else:
            if symn == 'dense':
                ctx.skip('fermions need a parity symmetry')
            ops = yastn.operators.SpinfulFermions(sym=symn, backend=cfg0.backend)
            ph = ops.space()
            mu_u, mu_d, U = t, ctx.scalar('mud', 'real'), ctx.scalar('U', 'real')
            g = GT.gate_local_Coulomb(mu_u, mu_d, U, step, ops.I(), ops.n(spin='u'), ops.n(spin='d'), site=(0, 0))
            nu, nd = _dense_local(ctx, ops.n(spin='u'), [ph, ph.conj()]), _dense_local(ctx, ops.n(spin='d'), [ph, ph.conj()])
            I2 = Modes(ctx, ops.config, [ph]).one(0)
            nn = _matmul(nu, nd)
            # H - U/4 is diagonal in the occupation basis with entries 0, -(mu_u + U/2), -(mu_d + U/2), -(mu_u + mu_d): spectral formula
            P0 = I2 - nu - nd + nn
            ref = P0 + (nu - nn) * exp(step * (mu_u + U / 2)) + (nd - nn) * exp(step * (mu_d + U / 2)) + nn * exp(step * (mu_u + mu_d))
            ctx.eq(_matmul(nu, nd), _matmul(nd, nu), 'Coulomb: [n_u, n_d] == 0')
            ctx.eq(reassemble(g.G[0], [ph, ph.conj()]), ref, 'gate_local_Coulomb == sum over occupations of projector x exp(-step (E - U/4))')
    elif gate in ('Heisenberg_H', 'tJ_H', 'nn_exp'):
        # the Hamiltonian handed to gate_nn_exp is the documented one; the exponential itself is the generic wiring (nn_exp)
        cap = {}
        oldexp = GT.gate_nn_exp
        GT.gate_nn_exp = lambda step, I, H, bond=None: cap.setdefault('H', H) and GT.Gate_nn(None, None, bond)
        try:
            if gate == 'Heisenberg_H':
                if symn == 'dense':
                    ops = yastn.operators.Spin12(sym='dense', backend=cfg0.backend)
                else:
                    ops = yastn.operators.Spin12(sym=symn, backend=cfg0.backend)
                ph = ops.space()
                J = t
                GT.gate_nn_Heisenberg(J, step, ops.I(), ops.sz(), ops.sp(), ops.sm())
                m = _two_site(ctx, ops.config, ph)
                E = lambda o, k: m.embed(_dense_local(ctx, o, [ph, ph.conj()]), tuple(o.n), k)
                ref = (_matmul(E(ops.sp(), 0), E(ops.sm(), 1)) + _matmul(E(ops.sm(), 0), E(ops.sp(), 1))) * (J / 2) + _matmul(E(ops.sz(), 0), E(ops.sz(), 1)) * J
                ctx.eq(reassemble(cap['H'], full4(ph)), _fk(ref), 'gate_nn_Heisenberg exponentiates J (Sz Sz + (S+ S- + S- S+)/2)')
            elif gate == 'tJ_H':
                if symn == 'dense':
                    ctx.skip('fermions need a parity symmetry')
                ops = yastn.operators.SpinfulFermions_tJ(sym=symn, backend=cfg0.backend)
                ph = ops.space()
                J, tu, td = t, ctx.scalar('tu', 'real'), ctx.scalar('td', 'real')
                mus = [ctx.scalar(f'mu{k}', 'real') for k in range(4)]
                cu, cpu, cd, cpd = ops.c(spin='u'), ops.cp(spin='u'), ops.c(spin='d'), ops.cp(spin='d')
                GT.gate_nn_tJ(J, tu, td, mus[0], mus[1], mus[2], mus[3], step, ops.I(), cu, cpu, cd, cpd)
                m = _two_site(ctx, ops.config, ph)
                L = lambda o: _dense_local(ctx, o, [ph, ph.conj()])
                E = lambda o, k: m.embed(L(o), tuple(o.n), k)
                P = lambda a, b: _matmul(a, b)
                nu, nd, Sp, Sm = cpu @ cu, cpd @ cd, cpu @ cd, cpd @ cu
                ref = (P(E(Sp, 0), E(Sm, 1)) + P(E(Sm, 0), E(Sp, 1))) * (J / 2) - (P(E(nu, 0), E(nd, 1)) + P(E(nd, 0), E(nu, 1))) * (J / 2) \
                    - (P(E(cpu, 0), E(cu, 1)) + P(E(cpu, 1), E(cu, 0))) * tu - (P(E(cpd, 0), E(cd, 1)) + P(E(cpd, 1), E(cd, 0))) * td \
                    - E(nu, 0) * mus[0] - E(nu, 1) * mus[1] - E(nd, 0) * mus[2] - E(nd, 1) * mus[3]
                ctx.eq(reassemble(cap['H'], full4(ph)), _fk(ref), 'gate_nn_tJ exponentiates the documented t-J Hamiltonian (Jordan-Wigner reference on two sites)')
            else:
                GT.gate_nn_exp = oldexp
                # generic exponential: G == U exp(-step D) U^dagger for the (memoised) eigh of the fused Hamiltonian, in the fkron layout
                if symn == 'dense':
                    ops = yastn.operators.Spin12(sym='dense', backend=cfg0.backend)
                elif symn == 'Z2':
                    ops = yastn.operators.SpinlessFermions(sym='Z2', backend=cfg0.backend)
                else:
                    ops = yastn.operators.SpinlessFermions(sym='U1', backend=cfg0.backend)
                ph = ops.space()
                H = yastn.zeros(config=ops.config, legs=full4(ph))
                ctx.fill(H, 'h', 'real')
                # Hermitian in the fused (out0 out1),(in0 in1) matrix sense: symmetrise
                Hs = (H + H.transpose(axes=(1, 0, 3, 2)).conj()) * 0.5
                captured.clear()
                GT.gate_nn_exp(step, ops.I(), Hs)
                Hf = (Hs + 0 * yastn.fkron(ops.I(), ops.I())).fuse_legs(axes=((0, 2), (1, 3)))
                D, U = yastn.linalg.eigh(Hf, axes=(0, 1))
                fD = D.copy()
                fD._data = np.array([exp(x * (-step)) for x in D._data], dtype=D._data.dtype) if sym_mode else np.exp(-step * D._data)
                ref = yastn.ncon((U, fD, U.conj()), ([-1, 1], [1, 2], [-3, 2])).unfuse_legs(axes=(0, 1)).transpose(axes=(0, 2, 1, 3))
                ctx.eq(reassemble(captured['G'], full4(ph)), reassemble(ref, full4(ph)), 'gate_nn_exp == U exp(-step D) U^dagger of the eigh of the fused Hamiltonian, in the fkron leg order')
        finally:
            GT.gate_nn_exp = oldexp
    elif gate == 'local_exp':
        if symn == 'dense':
            ops = yastn.operators.Spin12(sym='dense', backend=cfg0.backend)
        else:
            ops = yastn.operators.SpinfulFermions(sym=symn, backend=cfg0.backend)
        ph = ops.space()
        H = yastn.zeros(config=ops.config, legs=[ph, ph.conj()])
        ctx.fill(H, 'h', 'real')
        Hs = (H + H.transpose(axes=(1, 0)).conj()) * 0.5
        g = GT.gate_local_exp(step, ops.I(), Hs, site=(0, 0))
        D, U = yastn.linalg.eigh(Hs + 0 * ops.I(), axes=(0, 1))
        Ud = reassemble(U, [ph, U.get_legs(1)])
        ds = list(D._data)
        # dense U exp(-step D) U^dagger
        dD = reassemble(D, [U.get_legs(1).conj(), U.get_legs(1)])
        k = Ud.shape[1]
        ref = np.zeros((Ud.shape[0], Ud.shape[0]), dtype=object if sym_mode else np.complex128)
        for i in range(k):
            e = exp(dD[i, i] * (-step)) if sym_mode else np.exp(-step * dD[i, i])
            for a in range(Ud.shape[0]):
                for b in range(Ud.shape[0]):
                    ref[a, b] = ref[a, b] + Ud[a, i] * e * dense.conj(np.array([Ud[b, i]], dtype=Ud.dtype))[0]
        ctx.eq(reassemble(g.G[0], [ph, ph.conj()]), ref, 'gate_local_exp == U exp(-step D) U^dagger of the eigh of H')
    return {'gate': gate, 'sym': symn}
