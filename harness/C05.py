"""
C05 -- fermionic signs are consistent and order-independent.

(i)   swap_gate (both forms): dense result == dense operand x (-1)^{p(g1) p(g2)} with parities computed in the harness from the charges of
      every dense index, only in the components declared fermionic; involution; identity (same object) for bosonic configs.
(ii)  ncon / einsum with swap gates on open and contracted legs: ALL contraction orders of small networks give identical polynomials.
(iii) fkron: with the predefined c, c^dagger the dense matrices satisfy the canonical anticommutation relations in the declared site
      order; with symbolic-entry operators of fixed charge the result equals sign(sites, application order, parities) x the Jordan-Wigner
      reference built in the harness from occupation parities.
(iv)  sign_canonical_order == parity of the inversions among parity-odd operators, symbolic sites (incl. repeats).
"""
from __future__ import annotations
import itertools
import numpy as np
from symx import catalogue as cat
from symx import dense
from symx.dense import reassemble
from symx.wellformed import wellformed
from .common import rng_of, describe, union_leg
from .C01 import hash_seed

PROPERTY = 'C05'
FUNCTIONS = ['swap_gate (axes / charge forms)', '_meta_swap_gate', '_meta_swap_gate_charge', '_slices_to_negate', 'backend_np.negate_blocks',
             'ncon/einsum(swap=)', '_meta_ncon', '_resolve_bad_swaps', '_execute_commands (parity_sign)', 'fkron', 'sign_canonical_order', 'swap_charges']
ASSUMPTIONS = ['exact arithmetic']
OUTSIDE = ['networks with more than 4 tensors / 4 contracted labels', 'fkron with more than 3 operators']
BOUNDS = {'quick': {'configs': 'Z2, U1, U1xU1, U1xU1xZ2, Z2xU1 x fermionic in {True, per-component tuples, False}', 'swap_gate': 'rank 2..4, all groupings sampled',
                    'networks': 'triangle / 4-ring / double bond / trace templates, <= 4 contracted labels, all k! orders', 'fkron': '<= 3 operators, all site permutations x application orders'},
          'thorough': {'as quick': 'more structures'}}
OPTS = {'quick': {'max_paths': 200}, 'thorough': {'max_paths': 500}}
FCFG = [('Z2', True), ('U1', True), ('U1xU1', True), ('U1xU1', (True, False)), ('U1xU1', (False, True)), ('U1xU1xZ2', (False, False, True)),
        ('U1xU1xZ2', True), ('U1xU1xZ2', (True, True, False)), ('Z2xU1', (True, False)), ('Z2xU1', True), ('Z2', False), ('U1xU1', False), ('dense', False), ('Z3', False)]


def cases(tier, seed):
    out = []
    reps = 3 if tier == 'quick' else 150
    for rep in range(reps):
        for i, row in enumerate(cat.covering({'cfg': list(range(len(FCFG))), 'form': ['pair', 'groups', 'two-pairs', 'charge', 'charge-multi'], 'lazy': ['plain', 'lazy'],
                                              'dtype': ['real', 'complex'], 'fuse': ['none', 'meta', 'hard']}, seed=seed * 7 + rep, strength=2)):
            c = dict(row)
            c.update(kind='swap', tier=tier, id=f'swap-{rep}-{i}', seed=hash_seed(seed, 'C05', 'swap', rep, i))
            out.append(c)
        for i, row in enumerate(cat.covering({'cfg': list(range(10)), 'net': ['triangle', 'ring4', 'double', 'trace', 'chain-open', 'trace-mid', 'trace-back', 'trace-split', 'trace-3', 'star'],
                                              'parity': ['even', 'odd', 'mixed', 'multi'],
                                              'nswap': [1, 2, 3]}, seed=seed * 11 + rep, strength=2)):
            c = dict(row)
            c.update(kind='ncon', tier=tier, id=f'ncon-{rep}-{i}', seed=hash_seed(seed, 'C05', 'ncon', rep, i))
            out.append(c)
    # the recorded defect (known_findings.json), on fixed inputs so that it is exercised by every run
    out.append({'kind': 'ncon', 'cfg': 0, 'net': 'trace', 'parity': 'even', 'nswap': 1, 'force_swaps': [[1, -2]], 'tier': tier, 'id': 'ncon-loop-cross-a', 'seed': 11})
    out.append({'kind': 'ncon', 'cfg': 1, 'net': 'trace-3', 'parity': 'even', 'nswap': 1, 'force_swaps': [[1, 3]], 'tier': tier, 'id': 'ncon-loop-cross-b', 'seed': 12})
    for sym in ('Z2', 'U1'):
        for N in (2, 3):
            out.append({'kind': 'car', 'sym': sym, 'N': N, 'family': 'spinless', 'tier': tier, 'id': f'car-spinless-{sym}-{N}', 'seed': 1})
    for sym in ('Z2', 'U1', 'U1xU1xZ2', 'U1xU1'):
        out.append({'kind': 'car', 'sym': sym, 'N': 2, 'family': 'spinful', 'tier': tier, 'id': f'car-spinful-{sym}', 'seed': 1})
    for sym in ('Z2', 'U1'):
        for nop in (2, 3):
            for pars in itertools.product((0, 1), repeat=nop):
                out.append({'kind': 'fkron', 'sym': sym, 'nop': nop, 'pars': list(pars), 'tier': tier, 'id': f'fkron-{sym}-{"".join(map(str, pars))}', 'seed': hash_seed(seed, 'fk', sym, pars)})
    for nop in (2, 3, 4):
        for pars in itertools.product((0, 1), repeat=nop):
            out.append({'kind': 'sco', 'nop': nop, 'pars': list(pars), 'tier': tier, 'id': f'sco-{"".join(map(str, pars))}', 'seed': 1})
    return out


def run(ctx, spec):
    return globals()['k_' + spec['kind']](ctx, spec)


def _fss(cfg):
    f = cfg.fermionic
    n = cfg.sym.NSYM
    if f is True:
        return (True,) * n
    if not f:
        return (False,) * n
    return tuple(f)


def _leg_par(leg, fss):
    """parity vector (per fermionic component) of every dense index of a leg"""
    rows = []
    for t, D in zip(leg.t, leg.D):
        p = [t[c] % 2 for c in range(len(fss)) if fss[c]]
        rows.extend([p] * D)
    return np.array(rows, dtype=np.int64).reshape(len(rows), sum(fss))


def _group_par(legs, axes, fss, nd):
    """parity array broadcastable to the dense shape: sum over the legs in `axes`"""
    tot = None
    for ax in axes:
        p = _leg_par(legs[ax], fss)            # (dim, nf)
        shp = [1] * nd + [p.shape[1]]
        shp[ax] = p.shape[0]
        p = p.reshape(shp)
        tot = p if tot is None else tot + p
    return tot % 2


def _sign_pairs(legs, pairs, fss):
    nd = len(legs)
    e = 0
    for g1, g2 in pairs:
        e = e + (_group_par(legs, g1, fss, nd) * _group_par(legs, g2, fss, nd)).sum(axis=-1)
    return 1 - 2 * (e % 2)


def k_swap(ctx, spec):
    import yastn
    rng = rng_of(spec)
    symn, ferm = FCFG[spec['cfg']]
    cfg = cat.make_config(symn, fermionic=ferm)
    fss = _fss(cfg)
    rank = rng.choice([2, 3, 4])
    ts = cat.rand_tensor_spec(rng, symn, rank, dims=(1, 2), nsect=(1, 2, 3), max_size=100, dtype=spec['dtype'], drop=rng.choice(['none', 'some']))
    if ts is None:
        ctx.skip('none')
    a = cat.build(ctx, ts, 'a', config=cfg)
    if spec['lazy'] == 'lazy':
        p = list(range(rank)); rng.shuffle(p)
        a = a.transpose(tuple(p))
    legs = list(a.get_legs(native=True))
    A = reassemble(a)
    form = spec['form']
    idx = list(range(rank)); rng.shuffle(idx)
    # optional fusion of two legs into one (meta or hard): the swap then addresses the fused leg as a group
    b, groupmap = a, {i: (i,) for i in range(rank)}      # logical leg -> native legs (in a's native order)
    if spec['fuse'] != 'none' and rank >= 3:
        b = a.fuse_legs(axes=((0, 1),) + tuple(range(2, rank)), mode=spec['fuse'])
        groupmap = {0: (0, 1)}
        groupmap.update({i - 1: (i,) for i in range(2, rank)})
    nb = b.ndim
    lidx = list(range(nb)); rng.shuffle(lidx)
    if form in ('pair', 'groups', 'two-pairs'):
        if nb < 2:
            ctx.skip('rank')
        if form == 'pair':
            axes = (lidx[0], lidx[1])
            pairs = [(groupmap[lidx[0]], groupmap[lidx[1]])]
        elif form == 'groups':
            if nb < 3:
                ctx.skip('rank')
            axes = ((lidx[0], lidx[1]), lidx[2])
            pairs = [(groupmap[lidx[0]] + groupmap[lidx[1]], groupmap[lidx[2]])]
        else:
            if nb < 3:
                ctx.skip('rank')
            axes = (lidx[0], lidx[1], lidx[1], lidx[2]) if nb < 4 else (lidx[0], lidx[1], lidx[2], lidx[3])
            pairs = [(groupmap[axes[0]], groupmap[axes[1]]), (groupmap[axes[2]], groupmap[axes[3]])]
        c = b.swap_gate(axes=axes)
        sign = _sign_pairs(legs, pairs, fss) if any(fss) else 1
        cc = c.swap_gate(axes=axes)
    else:
        win = cat.window(symn)
        if form == 'charge':
            ch = rng.choice(win)
            axes = lidx[0] if rng.random() < 0.5 else (lidx[0], lidx[-1])
            ax_t = (axes,) if isinstance(axes, int) else tuple(dict.fromkeys(axes))
            chs = [ch] * len(ax_t)
            c = b.swap_gate(axes=axes, charge=ch)
            cc = c.swap_gate(axes=axes, charge=ch)
        else:
            ax_t = tuple(lidx[:min(2, nb)])
            chs = [rng.choice(win) for _ in ax_t]
            c = b.swap_gate(axes=ax_t, charge=tuple(chs))
            cc = c.swap_gate(axes=ax_t, charge=tuple(chs))
        if any(fss):
            nd = rank
            e = 0
            for ax, ch in zip(ax_t if form != 'charge' or not isinstance(axes, int) else (axes,), chs):
                pc = np.array([ch[k] % 2 for k in range(len(fss)) if fss[k]], dtype=np.int64)
                e = e + (_group_par(legs, groupmap[ax], fss, nd) * pc).sum(axis=-1)
            sign = 1 - 2 * (e % 2)
        else:
            sign = 1
    if not any(fss):
        ctx.check(c is b, 'swap_gate:bosonic-config-returns-operand-unchanged')
    wellformed(ctx, c, 'swap_gate', expect_n=a.n, check_dense_zero=False)
    ctx.check(c.struct == b.struct and c.get_legs() == b.get_legs() and c.trans == b.trans, 'swap_gate:structure-unchanged')
    cu = c.unfuse_legs(axes=0) if spec['fuse'] != 'none' and rank >= 3 else c
    ccu = cc.unfuse_legs(axes=0) if spec['fuse'] != 'none' and rank >= 3 else cc
    ctx.eq(reassemble(cu, legs), A * sign, f'swap_gate[{form}] == parity-sign x operand')
    ctx.eq(reassemble(ccu, legs), A, 'swap_gate is an involution')
    return {'a': describe(a), 'form': form, 'cfg': FCFG[spec['cfg']]}


# ----------------------------------------------------------------------------------------------------------------------

def _net_tensors(ctx, rng, cfg, symn, template, parity):
    """tensors for the template with matching dual legs; charges of the requested parity pattern"""
    import yastn
    def leg():
        win = cat.window(symn)
        k = min(len(win), kmax)
        ts = sorted(rng.sample(win, k))
        return {'t': [list(t) for t in ts], 'D': [1 for _ in ts]}
    nets = {'triangle': ([[-1, 1, 2], [1, 3, -2], [2, 3, -3]], 3), 'ring4': ([[1, 2, -1], [2, 3, -2], [3, 4, -3], [4, 1, -4]], 4),
            'double': ([[1, 2, -1], [1, 2, -2]], 2), 'trace': ([[1, 1, 2, -1], [2, -2, -3]], 2), 'chain-open': ([[-1, 1, -2], [1, 2], [2, -3, -4]], 2),
            'trace-mid': ([[-1, 1, 2, 1], [2, -2, -3]], 2), 'trace-back': ([[2, -1, 1, 1], [2, -2, -3]], 2), 'trace-split': ([[1, 2, 1, -1, -4], [2, -2, -3]], 2),
            'trace-3': ([[1, -1, 1, 2], [2, 3, -2], [3, -3, -4]], 3), 'star': ([[1, 2, 3], [1, -1], [2, -2], [3, -3]], 3)}
    inds, ncon_labels = nets[template]
    labels = sorted({x for ii in inds for x in ii})
    kmax = rng.choice([2, 3, 4]) if len(labels) <= 6 else rng.choice([2, 2, 3])     # sectors per leg (dimension one each)
    L = {x: leg() for x in labels}
    S = {x: rng.choice([1, -1]) for x in labels}
    tens = []
    seen = set()
    fss = _fss(cfg)
    for k, ii in enumerate(inds):
        sig, legs = [], []
        for x in ii:
            first = x not in seen
            seen.add(x)
            sig.append(S[x] if first else -S[x])
            legs.append(L[x])
        best = None
        for _ in range(30):
            tsp = cat.rand_tensor_spec(rng, symn, len(ii), fixed={j: (sig[j], legs[j]) for j in range(len(ii))}, dims=(1,), max_size=200)
            if tsp is None:
                continue
            par = sum(tsp['n'][c] for c in range(len(fss)) if fss[c]) % 2 if any(fss) else 0
            best = tsp
            if parity == 'multi':
                # odd in some fermionic component although the components sum to an even number (e.g. (1,1), (-1,0,1))
                if any(tsp['n'][c] % 2 for c in range(len(fss)) if fss[c]) and sum(tsp['n']) % 2 == 0:
                    break
                continue
            want = {'even': 0, 'odd': 1, 'mixed': k % 2}[parity]
            if par == want:
                break
        if best is None:
            ctx.skip('no structure')
        tens.append(cat.build(ctx, best, f't{k}', config=cfg))
    return tens, inds, ncon_labels


KNOWN_LOOP = 'ncon: swap between a label traced inside one tensor and a label on another tensor'


def k_ncon(ctx, spec):
    import yastn
    rng = rng_of(spec)
    symn, ferm = FCFG[spec['cfg']]
    cfg = cat.make_config(symn, fermionic=ferm)
    tens, inds, K = _net_tensors(ctx, rng, cfg, symn, spec['net'], spec['parity'])
    labels = sorted({x for ii in inds for x in ii})
    pairs = [(x, y) for x in labels for y in labels if x < y]
    loops0 = {x for ii in inds for x in ii if ii.count(x) == 2}
    if rng.random() < 0.8:
        pairs = [(x, y) for x, y in pairs if x not in loops0 and y not in loops0]
    swaps = rng.sample(pairs, min(spec['nswap'], len(pairs)))
    if spec.get('force_swaps'):
        swaps = [tuple(x) for x in spec['force_swaps']]
    orders = list(itertools.permutations(range(1, K + 1)))
    results = []
    # swap pairing a label traced inside one tensor with a label that has no leg on that tensor: recorded defect (known_findings.json); every
    # failing obligation of such a case carries the one label KNOWN_LOOP so that nothing else is suppressed by the entry
    holder = {x: k for k, ii in enumerate(inds) for x in ii if ii.count(x) == 2}
    loop_cross = [(x, y) for x, y in swaps for a_, b_ in ((x, y), (y, x)) if a_ in holder and b_ not in inds[holder[a_]]]
    for o in orders:
        try:
            r = yastn.ncon(tens, inds, order=list(o), swap=swaps)
        except yastn.YastnError as e:
            if 'inefficient order' in str(e) or 'one after another' in str(e):
                continue
            raise
        except AssertionError as e:
            if loop_cross:
                ctx.check(False, KNOWN_LOOP, f'order {o} swap {swaps}: AssertionError {e}')
            raise
        results.append((o, r))
    ctx.check(len(results) >= 1, 'ncon: at least one admissible order')
    o0, r0 = results[0]
    U = list(r0.get_legs(native=True))
    R0 = reassemble(r0, U)
    for o, r in results[1:]:
        ctx.check(r.n == r0.n and tuple(r.get_signature()) == tuple(r0.get_signature()), 'ncon:charge/signature-order-independent')
        lr = r.get_legs(native=True)
        U2 = [_u(x, y) for x, y in zip(lr, U)]
        ctx.eq(reassemble(r, U2), reassemble(r0, U2), KNOWN_LOOP if loop_cross else f'ncon(swap={swaps}): order {o} == order {o0}')
    # default order (None) and einsum with the same network
    r = yastn.ncon(tens, inds, swap=swaps)
    U2 = [_u(x, y) for x, y in zip(r.get_legs(native=True), U)]
    ctx.eq(reassemble(r, U2), reassemble(r0, U2), KNOWN_LOOP if loop_cross else 'ncon: default order == explicit order')
    # swaps between two OPEN legs only: dense oracle (sign on the output indices) relative to the swap-free network
    open_sw = [(x, y) for x, y in swaps if x < 0 and y < 0]
    if open_sw and len(open_sw) == len(swaps):
        base = yastn.ncon(tens, inds)
        lb = list(base.get_legs(native=True))
        fss = _fss(cfg)
        pos = lambda x: -x - 1
        sign = _sign_pairs(lb, [((pos(x),), (pos(y),)) for x, y in open_sw], fss) if any(fss) else 1
        ctx.eq(reassemble(r, lb), reassemble(base, lb) * sign, 'ncon: swap on open legs == parity sign on the result')
    if not any(_fss(cfg)):
        base = yastn.ncon(tens, inds)
        lb = list(base.get_legs(native=True))
        ctx.eq(reassemble(r, lb), reassemble(base, lb), 'ncon: swaps are trivial for bosonic statistics')
    # every swap set (open or contracted legs): independent dense definition
    ref, lo = _ncon_oracle(tens, inds, swaps, _fss(cfg), ctx.mode == 'sym')
    lo = [l if l.s == lr.s else l.conj() for l, lr in zip(lo, r.get_legs(native=True))] if r.ndim_n else []
    ctx.eq(reassemble(r, lo), ref, KNOWN_LOOP if loop_cross else f'ncon(swap={swaps}) == sum over index assignments with crossing signs (dense definition)')
    return {'net': spec['net'], 'swaps': swaps, 'orders': len(results), 'cfg': FCFG[spec['cfg']]}


def _ncon_oracle(tens, inds, swaps, fss, dtype_obj):
    """independent dense definition of ncon with swaps: sum over all index assignments of the product of the operands' entries times
    (-1)^{sum over swapped label pairs (a,b) of p(i_a).p(i_b)}, p = parity vector (fermionic components) of the sector the index lies in."""
    U = {}
    for t, ii in zip(tens, inds):
        for l, x in zip(t.get_legs(native=True), ii):
            if x not in U:
                U[x] = l
            else:
                U[x] = _u(U[x], l.conj())
    arrs = []
    for t, ii in zip(tens, inds):
        seen = set()
        legs = []
        own = t.get_legs(native=True)
        for l, x in zip(own, ii):
            legs.append(U[x] if l.s == U[x].s else U[x].conj())
        # a label traced inside one tensor: both axes use U[x] / its conj
        arrs.append(reassemble(t, legs))
    labels = sorted(U)
    dims = {x: sum(U[x].D) for x in labels}
    par = {x: _leg_par(U[x], fss) for x in labels} if any(fss) else None
    outs = sorted([x for x in labels if x <= 0], reverse=True)
    res = np.zeros(tuple(dims[x] for x in outs), dtype=object if dtype_obj else np.complex128)
    for combo in itertools.product(*[range(dims[x]) for x in labels]):
        idx = dict(zip(labels, combo))
        term = 1
        zero = False
        for a, ii in zip(arrs, inds):
            v = a[tuple(idx[x] for x in ii)]
            if isinstance(v, (int, float, np.integer, np.floating)) and v == 0:
                zero = True
                break
            term = term * v
        if zero:
            continue
        if par is not None:
            e = 0
            for a_, b_ in swaps:
                e += int((par[a_][idx[a_]] * par[b_][idx[b_]]).sum())
            if e % 2:
                term = -term
        k = tuple(idx[x] for x in outs)
        res[k] = res[k] + term
    return res, [U[x] for x in outs]


def _u(x, y):
    import yastn
    d = dict(zip(x.t, x.D))
    for t, D in zip(y.t, y.D):
        d.setdefault(t, D)
    ts = sorted(d)
    return yastn.Leg(x.sym, s=x.s, t=ts, D=[d[t] for t in ts])


# ----------------------------------------------------------------------------------------------------------------------

def _as_matrix(F, nsites):
    """dense fkron tensor (legs: out0,in0,out1,in1,...) -> matrix rows=(out0,out1,..), cols=(in0,in1,...)"""
    perm = list(range(0, 2 * nsites, 2)) + list(range(1, 2 * nsites, 2))
    X = F.transpose(perm)
    r = int(np.prod(X.shape[:nsites]))
    return X.reshape(r, -1)


def k_car(ctx, spec):
    """canonical anticommutation relations of fkron-embedded c, c^dagger (concrete 0/+-1 entries: decided by exact evaluation)"""
    import yastn
    symn, N = spec['sym'], spec['N']
    cfg0 = cat.make_config(symn)
    if spec['family'] == 'spinless':
        ops = yastn.operators.SpinlessFermions(sym=symn, backend=cfg0.backend)
        modes = [(j, None) for j in range(N)]
        c = lambda m: ops.c()
        cp = lambda m: ops.cp()
    else:
        ops = yastn.operators.SpinfulFermions(sym=symn, backend=cfg0.backend)
        modes = [(j, sp) for j in range(N) for sp in ('u', 'd')]
        c = lambda m: ops.c(spin=m[1])
        cp = lambda m: ops.cp(spin=m[1])
    I = ops.I()
    sp_leg = ops.space()
    full = [sp_leg, sp_leg.conj()] * N
    def emb(op, site):
        lst = [I] * N
        lst[site] = op
        F = yastn.fkron(*lst, sites=list(range(N)))
        return _as_matrix(reassemble(F, full), N)
    dim = sum(sp_leg.D) ** N
    Id = np.eye(dim, dtype=object if ctx.mode == 'sym' else float)
    C = {m: emb(c(m), m[0]) for m in modes}
    Cd = {m: emb(cp(m), m[0]) for m in modes}
    distinguishable = (spec['family'] == 'spinful' and symn == 'U1xU1')
    for m1 in modes:
        for m2 in modes:
            same_species = (m1[1] == m2[1])
            anti = same_species or not distinguishable
            sgn = 1 if anti else -1
            ctx.eq(C[m1] @ Cd[m2] + sgn * (Cd[m2] @ C[m1]), Id if m1 == m2 else np.zeros((dim, dim), dtype=Id.dtype), f'CAR {{c_{m1}, c+_{m2}}}')
            ctx.eq(C[m1] @ C[m2] + sgn * (C[m2] @ C[m1]), np.zeros((dim, dim), dtype=Id.dtype), f'CAR {{c_{m1}, c_{m2}}}')
    # any site order given to fkron describes the same operators
    if N >= 2:
        perm = list(range(N))[::-1]
        lst = [I] * N
        lst[0] = c(modes[0])
        F1 = yastn.fkron(*lst, sites=list(range(N)))
        F2 = yastn.fkron(*[lst[p] for p in perm], sites=perm)
        ctx.eq(reassemble(F2, full), reassemble(F1, full), 'fkron: result depends on sites, not on argument order (single odd operator)')
    return {'sym': symn, 'N': N, 'family': spec['family']}


def k_fkron(ctx, spec):
    """symbolic-entry operators of fixed parity on nop sites: every site permutation x application order against the Jordan-Wigner reference"""
    import yastn
    rng = rng_of(spec)
    symn, nop, pars = spec['sym'], spec['nop'], spec['pars']
    cfg = cat.make_config(symn, fermionic=True)
    leg = yastn.Leg(cfg, s=1, t=(0, 1), D=((1, 2) if rng.random() < 0.5 else (2, 1)) if nop == 2 else (1, 1))
    opsT = []
    for k, p in enumerate(pars):
        # operator with legs (out: s=1, in: s=-1) and charge of parity p
        if symn == 'Z2':
            n = (p,)
        else:
            n = (rng.choice([1, -1]) if p else 0,)
        try:
            t = yastn.zeros(config=cfg, legs=[leg, leg.conj()], n=n)
        except yastn.YastnError:
            ctx.skip('no blocks')
        if t.size == 0:
            ctx.skip('no blocks')
        opsT.append(ctx.fill(t, f'o{k}', 'real'))
    full = [leg, leg.conj()] * nop
    d = sum(leg.D)
    par_idx = np.array([t[0] % 2 for t, D in zip(leg.t, leg.D) for _ in range(D)])
    P = np.diag(1 - 2 * par_idx).astype(object if ctx.mode == 'sym' else float)
    Id = np.eye(d, dtype=P.dtype)
    def jw(opmat, site, parity):
        mats = [(P if (parity and i < site) else Id) for i in range(nop)]
        mats[site] = opmat
        out = mats[0]
        for m in mats[1:]:
            out = np.kron(out, m)
        return out
    dense_ops = [reassemble(t, [leg, leg.conj()]) for t in opsT]
    for sites in itertools.permutations(range(nop)):
        apps = list(itertools.permutations(range(nop)))
        for app in [None] + (apps if nop == 2 else rng.sample(apps, 2)):
            F = yastn.fkron(*opsT, sites=list(sites), application_order=None if app is None else list(app))
            wellformed(ctx, F, 'fkron', check_dense_zero=False)
            got = _as_matrix(reassemble(F, full), nop)
            # reference: operators applied in application order (default: the last operator is applied first)
            order = list(range(nop))[::-1] if app is None else list(app)
            ref = np.eye(d ** nop, dtype=P.dtype)
            for k in order:      # first applied = rightmost factor
                ref = jw(dense_ops[k], sites[k], pars[k]) @ ref
            ctx.eq(got, ref, f'fkron(sites={sites}, application_order={app}) == product of Jordan-Wigner embedded operators')
    return {'sym': symn, 'pars': pars}


def k_sco(ctx, spec):
    """sign_canonical_order == (-1)^{#inversions among parity-odd operators}; symbolic sites in [0,3] incl. repeats"""
    import yastn
    from yastn.tensor._auxiliary import sign_canonical_order
    nop, pars = spec['nop'], spec['pars']
    ops = yastn.operators.SpinlessFermions(sym='Z2')
    O = [ops.c() if p else ops.n() for p in pars]
    sites = [ctx.integer(f's{k}', 0, 3) for k in range(nop)]
    sgn = sign_canonical_order(*O, sites=sites, f_ordered=lambda a, b: a <= b)
    ctx.check(sgn in (1, -1), 'sign in {+1,-1}', sgn)
    # oracle: number of pairs i<j (argument order) with site_i > site_j and both operators odd; on this path all comparisons
    # are decided, so the count is concrete: read it back through the engine
    inv = 0
    for i in range(nop):
        for j in range(i + 1, nop):
            if pars[i] and pars[j]:
                gt = sites[i] > sites[j]
                if bool(gt):
                    inv += 1
    ctx.check(sgn == 1 - 2 * (inv % 2), 'sign_canonical_order == parity of inversions among odd operators', (pars, sgn, inv))
    # bosonic config: always +1
    b = yastn.operators.Spin12(sym='Z2')
    ctx.check(sign_canonical_order(b.sp(), b.sm(), sites=[sites[-1], sites[0]], f_ordered=lambda a, c: a <= c) == 1, 'bosonic:+1')
    return {'pars': pars}
