"""shared pieces of the symx harnesses: operand generation from the catalogue, lazy-state handling, leg oracles."""
from __future__ import annotations
import random
import numpy as np
from symx import catalogue as cat
from symx import dense
from symx.wellformed import wellformed, gadd


def rng_of(spec):
    return random.Random(spec['seed'])


def cfg_of(spec, **kw):
    pol = spec.get('policy')
    if pol:
        kw.setdefault('tensordot_policy', pol)
    if spec.get('fusion'):
        kw.setdefault('default_fusion', spec['fusion'])
    return cat.make_config(spec['sym'], fermionic=spec.get('fermionic', False), **kw)


def lazy(rng, a, state):
    """put operand into the requested lazy-transposition state; returns tensor whose LOGICAL legs are permuted."""
    if a.ndim < 2 or state == 'plain':
        return a
    perm = list(range(a.ndim))
    for _ in range(5):
        rng.shuffle(perm)
        if perm != sorted(perm):
            break
    b = a.transpose(tuple(perm))
    if state == 'lazy':
        return b
    if state == 'consumed':
        return b.consume_transpose()
    if state == 'copied':
        return b.copy()
    raise KeyError(state)


def ylegs(cfg, s, legs):
    import yastn
    return [yastn.Leg(cfg, s=si, t=[tuple(t) for t in l['t']], D=list(l['D'])) for si, l in zip(s, legs)]


def union_leg(l1, l2):
    """harness union of two plain (unfused) legs with consistent dims."""
    import yastn
    d = dict(zip(l1.t, l1.D))
    for t, D in zip(l2.t, l2.D):
        assert d.setdefault(t, D) == D
    ts = sorted(d)
    return yastn.Leg(l1.sym, s=l1.s, t=ts, D=[d[t] for t in ts])


def describe(a):
    return {'sym': a.config.sym.SYM_ID, 's': a.s, 'n': a.n, 'blocks': len(a.struct.t), 'size': a.size,
            'trans': a.trans, 'mfs': a.mfs, 'diag': a.isdiag,
            'legs': [(l.t, l.D) for l in (a.get_legs(native=True) if a.ndim_n else [])]}


def check_result_legs(ctx, c, expect_legs, label):
    """result legs: same signature, and sectors contained in the documented spaces with equal dimensions."""
    got = c.get_legs(native=True) if c.ndim_n else ()
    ctx.check(len(got) == len(expect_legs), f'{label}:rank', (len(got), len(expect_legs)))
    for i, (g, e) in enumerate(zip(got, expect_legs)):
        ctx.check(g.s == e.s, f'{label}:leg-signature', f'leg {i}: {g.s} vs {e.s}')
        ctx.check(dense.leg_sub(g, e), f'{label}:leg-sectors', f'leg {i}: {g.t}/{g.D} not within {e.t}/{e.D}')
        ctx.check(g.hf.tree == e.hf.tree and g.hf.op == e.hf.op, f'{label}:leg-history', f'leg {i}')
