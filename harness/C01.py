"""
C01 -- tensor algebra agrees with dense linear algebra.

Every case: build operands from the structure catalogue, make ALL their stored elements solver variables, run the real
yastn operation, re-assemble operands and result densely through block access + get_legs (symx.dense) and ask z3 whether
any element can differ from what plain NumPy gives on the dense operands.
"""
from __future__ import annotations
import itertools
import numpy as np
from symx import catalogue as cat
from symx import dense
from symx.dense import reassemble, meta_dense
from symx.wellformed import wellformed, gadd
from .common import rng_of, cfg_of, lazy, ylegs, union_leg, describe, check_result_legs

PROPERTY = 'C01'
FUNCTIONS = [
    'yastn.Tensor.__add__/__sub__/add', '__mul__/__rmul__/__truediv__/__neg__/__pow__/__abs__', 'real/imag/conj/conj_blocks',
    'flip_signature/flip_charges/switch_signature', 'transpose/moveaxis/T/H/consume_transpose', 'tensordot/__matmul__ (3 policies)',
    '_tensordot_diag/broadcast', 'vdot', 'trace', 'apply_mask', 'diag', 'add_leg/remove_leg', 'ncon/einsum',
    '__getitem__', 'to_numpy/to_dense/to_nonsymmetric', 'get_legs', 'exp/sqrt/rsqrt/reciprocal',
    'backend_np.add/sub/dot/transpose_dot_sum/dot_diag/trace/transpose/transpose_and_merge/unmerge/merge_to_dense/apply_mask/embed_mask/diag_1dto2d/diag_2dto1d/vdot',
]
ASSUMPTIONS = ['exact real/complex arithmetic (no floating-point round-off, no float32/complex64 promotion)',
               'NumPy backend only', 'structures limited to the catalogue bounds in coverage.bounds']
OUTSIDE = ['torch backends / kernel_tensordot_bs', 'ranks > 5, sector windows beyond |t|<=2, > 400 stored elements per operand',
           'float round-off and dtype promotion']
BOUNDS = {
    'quick': {'syms': list(cat.SYMS), 'rank': '0..4', 'sectors_per_leg': '1..3', 'sector_dims': [1, 2], 'max_elements_per_operand': 160,
              'lazy_states': ['plain', 'lazy', 'consumed', 'copied'], 'policies': ['fuse_to_matrix', 'fuse_contracted', 'no_fusion'],
              'dtypes': ['real', 'complex'], 'covering_strength': 2, 'contracted_axes': '0..3'},
    'thorough': {'syms': list(cat.SYMS), 'rank': '0..5', 'sectors_per_leg': '1..3', 'sector_dims': [1, 2, 3], 'max_elements_per_operand': 400,
                 'lazy_states': ['plain', 'lazy', 'consumed', 'copied'], 'policies': ['fuse_to_matrix', 'fuse_contracted', 'no_fusion'],
                 'dtypes': ['real', 'complex'], 'covering_strength': 3, 'contracted_axes': '0..3'},
}
FLOAT_XVAL = {'quick': 1.0, 'thorough': 1.0}      # dtype promotion is observable on the float backend only
FLOAT_NUMERIC_IS_VIOLATION = True
OPTS = {'quick': {'max_paths': 4000, 'query_timeout_ms': 60000}, 'thorough': {'max_paths': 20000, 'query_timeout_ms': 120000}}

LAZY = ['plain', 'lazy', 'consumed', 'copied']
POLICIES = ['fuse_to_matrix', 'fuse_contracted', 'no_fusion']
KINDS = ['add', 'scalar', 'conj', 'transpose', 'tensordot', 'tensordot_diag', 'vdot', 'trace', 'broadcast', 'mask',
         'diag', 'addremove', 'ncon', 'output', 'elementwise', 'meta_operand', 'mixed_dtype']


def cases(tier, seed):
    out = []
    strength = 2 if tier == 'quick' else 3
    reps = {'quick': 3, 'thorough': 24}[tier]
    for kind in KINDS:
        factors = {'sym': list(cat.SYMS), 'dtype': ['real', 'complex'], 'lazy_a': LAZY, 'drop': ['none', 'some']}
        if kind in ('add', 'tensordot', 'vdot', 'ncon', 'tensordot_diag', 'broadcast', 'mask'):
            factors['lazy_b'] = LAZY
        if kind in ('tensordot', 'ncon', 'tensordot_diag'):
            factors['policy'] = POLICIES
        if kind in ('add', 'tensordot', 'vdot'):
            factors['overlap'] = ['equal', 'subset', 'superset', 'overlap', 'disjoint']
        if kind == 'tensordot':
            factors['ncontr'] = [0, 1, 2, 3]
        if kind in ('scalar', 'conj', 'transpose', 'output', 'elementwise', 'addremove', 'meta_operand', 'mixed_dtype'):
            factors['variant'] = VARIANTS[kind]
        if kind in ('scalar', 'conj', 'transpose', 'output', 'trace', 'addremove', 'add'):
            factors['rank'] = [0, 1, 2, 3, 4] if tier == 'quick' else [0, 1, 2, 3, 4, 5]
        for rep in range(reps):
            rows = cat.covering(factors, seed=seed * 1000 + 17 * KINDS.index(kind) + rep, strength=min(strength, len(factors)))
            for i, row in enumerate(rows):
                c = dict(row)
                c.update(kind=kind, tier=tier, seed=hash_seed(seed, kind, rep, i), id=f'{kind}-{rep}-{i}')
                out.append(c)
    return out


def hash_seed(*parts):
    import zlib
    return zlib.crc32(repr(parts).encode()) & 0x7fffffff


VARIANTS = {
    'scalar': ['mul', 'rmul', 'div', 'neg', 'pow2', 'pow3', 'abs', 'real', 'imag', 'mul_complex'],
    'conj': ['conj', 'conj_blocks', 'flip_signature', 'flip_charges', 'flip_charges_all', 'switch_signature', 'switch_all'],
    'transpose': ['transpose', 'moveaxis', 'T', 'H', 'consume', 'double'],
    'output': ['to_numpy', 'to_numpy_legs', 'to_numpy_reverse', 'to_nonsymmetric', 'blocks', 'to_dense_native'],
    'elementwise': ['exp', 'sqrt', 'rsqrt', 'reciprocal', 'rsqrt_cut', 'reciprocal_cut'],
    'addremove': ['add_default', 'add_charge', 'add_leg_obj', 'remove', 'add_remove'],
    'meta_operand': ['mask', 'broadcast', 'dot_diag', 'add_leg', 'flip_charges', 'switch_signature', 'remove_leg', 'getitem'],
    'mixed_dtype': ['add', 'tensordot', 'dot_diag', 'broadcast', 'vdot', 'mul_complex'],
}


def _dims(spec):
    return (1, 2) if spec.get('tier', 'quick') == 'quick' else (1, 2, 3)


def _maxsize(spec):
    return 160 if spec.get('tier', 'quick') == 'quick' else 400


def _operand(ctx, rng, spec, name, rank, cfg, **kw):
    kw.setdefault('dims', _dims(spec))
    kw.setdefault('max_size', _maxsize(spec))
    kw.setdefault('drop', spec.get('drop', 'none'))
    kw.setdefault('dtype', spec.get('dtype', 'real'))
    ts = cat.rand_tensor_spec(rng, spec['sym'], rank, **kw)
    if ts is None:
        ctx.skip('no admissible structure drawn')
    return cat.build(ctx, ts, name, config=cfg), ts


def run(ctx, spec):
    rng = rng_of(spec)
    cfg = cfg_of(spec)
    return globals()['k_' + spec['kind']](ctx, rng, spec, cfg)


# ----------------------------------------------------------------------------------------------------------------------

def _partner_spec(rng, spec, ta, mode, s_sign=1, dtype=None):
    """tensor spec with the same signature (times s_sign) / charge as ta and perturbed sector sets."""
    legs = [cat.perturb_leg(rng, spec['sym'], l, mode if rng.random() < 0.7 else 'equal') for l in ta['legs']]
    s = [s_sign * x for x in ta['s']]
    n = ta['n'] if s_sign == 1 else list(gadd_spec(spec['sym'], ta['n']))
    blocks = cat.allowed_blocks(spec['sym'], s, legs, n) if len(s) else [()]
    sel = None
    if spec.get('drop') == 'some' and len(blocks) > 1:
        sel = [list(sum(b, ())) for b in blocks if rng.random() < 0.6]
    return {'sym': spec['sym'], 'fermionic': False, 's': s, 'legs': legs, 'n': list(n), 'blocks': sel,
            'dtype': dtype or spec.get('dtype', 'real'), 'isdiag': False}


def gadd_spec(symname, n):
    symid = 'dense' if symname in ('dense', 'none') else symname
    return gadd(symid, [tuple(n)], [1], -1)


def k_add(ctx, rng, spec, cfg):
    rank = spec.get('rank', 2)
    a, ta = _operand(ctx, rng, spec, 'a', rank, cfg)
    tb = _partner_spec(rng, spec, ta, spec.get('overlap', 'equal'))
    if cat.spec_size(tb) > _maxsize(spec):
        ctx.skip('partner too large')
    b = cat.build(ctx, tb, 'b', config=cfg)
    # same logical permutation for both (addition requires matching legs), individually lazy / materialised
    perm = list(range(rank))
    rng.shuffle(perm)
    def put(x, state):
        if rank < 2 or state == 'plain':
            return x
        y = x.transpose(tuple(perm))
        return y if state == 'lazy' else (y.consume_transpose() if state == 'consumed' else y.copy())
    la, lb = spec['lazy_a'], spec.get('lazy_b', 'plain')
    if (la == 'plain') != (lb == 'plain'):
        lb = la
    a, b = put(a, la), put(b, lb)
    U = [union_leg(x, y) for x, y in zip(a.get_legs(native=True), b.get_legs(native=True))] if rank else []
    A, B = reassemble(a, U), reassemble(b, U)
    x = ctx.scalar('x', spec['dtype'])
    y = ctx.scalar('y', 'real')
    for label, c, ref in [('a+b', a + b, A + B), ('a-b', a - b, A - B),
                          ('add(amplitudes)', __import__('yastn').add(a, b, a, amplitudes=[x, y, None]), x * A + y * B + A)]:
        wellformed(ctx, c, label, expect_n=a.n)
        check_result_legs(ctx, c, U, label)
        ctx.eq(reassemble(c, U), ref, label)
    return describe(a)


def k_scalar(ctx, rng, spec, cfg):
    a, ta = _operand(ctx, rng, spec, 'a', spec.get('rank', 2), cfg)
    a = lazy(rng, a, spec['lazy_a'])
    A = reassemble(a)
    v = spec['variant']
    x = ctx.scalar('x', 'complex' if v == 'mul_complex' else 'real')
    if v in ('mul', 'mul_complex'):
        c, ref = a * x, A * x
    elif v == 'rmul':
        c, ref = x * a, x * A
    elif v == 'div':
        ctx.assume(x != 0)
        c, ref = a / x, A / x
    elif v == 'neg':
        c, ref = -a, -A
    elif v == 'pow2':
        c, ref = a ** 2, A ** 2
    elif v == 'pow3':
        c, ref = a ** 3, A ** 3
    elif v == 'abs':
        c, ref = abs(a), abs(A)
    elif v == 'real':
        c, ref = a.real(), _real(A)
    elif v == 'imag':
        c, ref = a.imag(), _imag(A)
    wellformed(ctx, c, v, expect_n=a.n)
    check_result_legs(ctx, c, a.get_legs(native=True) if a.ndim_n else [], v)
    if v in ('pow2', 'pow3', 'abs'):
        # element-wise maps act on stored blocks; f(0) == 0 here so the dense statement holds everywhere
        pass
    ctx.eq(reassemble(c, a.get_legs(native=True) if a.ndim_n else None), ref, v)
    return describe(a)


def _real(A):
    if A.dtype == object:
        return np.array([e.real for e in A.flat] + [None], dtype=object)[:-1].reshape(A.shape)
    return A.real


def _imag(A):
    if A.dtype == object:
        return np.array([e.imag for e in A.flat] + [None], dtype=object)[:-1].reshape(A.shape)
    return A.imag


def _relabel_oracle(A, legs_a, legs_c, axes, charge_map):
    """dense array of the result when, on `axes`, sector t of a becomes sector charge_map(t) of c (same order inside)."""
    out = np.zeros(tuple(sum(l.D) for l in legs_c), dtype=A.dtype)
    offs_a = [dense.offsets(l)[0] for l in legs_a]
    offs_c = [dense.offsets(l)[0] for l in legs_c]
    for combo in itertools.product(*[l.t for l in legs_a]):
        cc = tuple(charge_map(t) if i in axes else t for i, t in enumerate(combo))
        if any(t not in o for t, o in zip(cc, offs_c)):
            continue   # a block of a (possibly zero / absent) whose image sector does not exist in c
        sa = tuple(slice(*o[t]) for o, t in zip(offs_a, combo))
        sc = tuple(slice(*o[t]) for o, t in zip(offs_c, cc))
        out[sc] = A[sa]
    return out


def k_conj(ctx, rng, spec, cfg):
    import yastn
    rank = spec.get('rank', 2)
    a, ta = _operand(ctx, rng, spec, 'a', rank, cfg)
    a = lazy(rng, a, spec['lazy_a'])
    A = reassemble(a)
    la = a.get_legs(native=True) if rank else []
    v = spec['variant']
    symid = cfg.sym.SYM_ID
    neg = lambda t: gadd(symid, [t], [1], -1)
    if v == 'conj':
        c = a.conj()
        wellformed(ctx, c, v, expect_n=neg(a.n))
        check_result_legs(ctx, c, [l.conj() for l in la], v)
        ctx.eq(reassemble(c), dense.conj(A), v)
    elif v == 'conj_blocks':
        c = a.conj_blocks()
        wellformed(ctx, c, v, expect_n=a.n)
        check_result_legs(ctx, c, la, v)
        ctx.eq(reassemble(c), dense.conj(A), v)
    elif v == 'flip_signature':
        c = a.flip_signature()
        wellformed(ctx, c, v, expect_n=neg(a.n))
        check_result_legs(ctx, c, [l.conj() for l in la], v)
        ctx.eq(reassemble(c), A, v)
    elif v in ('flip_charges', 'flip_charges_all', 'switch_signature', 'switch_all'):
        if rank == 0:
            ctx.skip('rank 0')
        axes = tuple(range(rank)) if v.endswith('all') else tuple(sorted(rng.sample(range(rank), rng.randint(1, rank))))
        if v.startswith('flip'):
            c = a.flip_charges() if v == 'flip_charges_all' and rng.random() < 0.5 else a.flip_charges(axes)
        else:
            c = a.switch_signature('all') if v == 'switch_all' else a.switch_signature(list(axes))
        wellformed(ctx, c, v, expect_n=a.n)
        lc = c.get_legs(native=True)
        for i in range(rank):
            ctx.check(lc[i].s == (-la[i].s if i in axes else la[i].s), f'{v}:signature', (i, lc[i].s, la[i].s))
            exp_t = sorted(neg(t) for t in la[i].t) if i in axes else list(la[i].t)
            ctx.check(set(lc[i].t) <= set(exp_t), f'{v}:sectors', (i, lc[i].t, exp_t))
        # embed c into the full image legs
        full = [yastn.Leg(cfg, s=(-l.s if i in axes else l.s), t=sorted(neg(t) for t in l.t) if i in axes else l.t,
                          D=[dict(zip(l.t, l.D))[neg(t2)] for t2 in sorted(neg(t) for t in l.t)] if i in axes else l.D)
                for i, l in enumerate(la)]
        ctx.eq(reassemble(c, full), _relabel_oracle(A, la, full, axes, neg), v)
    return describe(a)


def k_transpose(ctx, rng, spec, cfg):
    rank = spec.get('rank', 3)
    a, ta = _operand(ctx, rng, spec, 'a', rank, cfg)
    a = lazy(rng, a, spec['lazy_a'])
    A = reassemble(a)
    la = list(a.get_legs(native=True)) if rank else []
    v = spec['variant']
    perm = list(range(rank))
    rng.shuffle(perm)
    if v == 'transpose':
        c, ref, lc = a.transpose(tuple(perm)), A.transpose(perm), [la[p] for p in perm]
    elif v == 'moveaxis':
        if rank < 2:
            ctx.skip('rank < 2')
        k = rng.randint(1, min(2, rank))
        src = rng.sample(range(rank), k)
        dst = rng.sample(range(rank), k)
        if rng.random() < 0.3:
            src, dst = [s - rank for s in src], dst
        c = a.moveaxis(src[0], dst[0]) if k == 1 else a.moveaxis(tuple(src), tuple(dst))
        ref = np.moveaxis(A, src, dst)
        # leg order after moveaxis: same rule as numpy
        pos = [n for n in range(rank) if n not in [s % rank for s in src]]
        for d, s in sorted(zip([d % rank for d in dst], [s % rank for s in src])):
            pos.insert(d, s)
        lc = [la[p] for p in pos]
    elif v == 'T':
        c, ref, lc = a.T, A.transpose(), la[::-1]
    elif v == 'H':
        c, ref, lc = a.H, dense.conj(A.transpose()), [l.conj() for l in la[::-1]]
    elif v == 'consume':
        c, ref, lc = a.transpose(tuple(perm)).consume_transpose(), A.transpose(perm), [la[p] for p in perm]
        ctx.check(c.trans == tuple(range(rank)), 'consume:trans-cleared', c.trans)
    elif v == 'double':
        perm2 = list(range(rank))
        rng.shuffle(perm2)
        c = a.transpose(tuple(perm)).transpose(tuple(perm2))
        ref = A.transpose(perm).transpose(perm2)
        lc = [[la[p] for p in perm][q] for q in perm2]
    symid = cfg.sym.SYM_ID
    wellformed(ctx, c, v, expect_n=gadd(symid, [a.n], [1], -1) if v == 'H' else a.n)
    check_result_legs(ctx, c, lc, v)
    got = c.get_legs(native=True) if rank else []
    ctx.check(all(dense.legs_equal(x, y) for x, y in zip(got, lc)), f'{v}:legs-order', [(x.t, y.t) for x, y in zip(got, lc)])
    ctx.eq(reassemble(c), ref, v)
    return describe(a)


def _contract_pair(ctx, rng, spec, cfg, ra, rb, k, name_a='a', name_b='b'):
    """operands a (rank ra), b (rank rb) with k matching legs (a's axes_a[i] <-> b's axes_b[i]) of perturbed sector content."""
    a, ta = _operand(ctx, rng, spec, name_a, ra, cfg)
    axes_a = rng.sample(range(ra), k)
    axes_b = rng.sample(range(rb), k)
    mode = spec.get('overlap', 'equal')
    fixed, prefer = {}, {}
    for ia, ib in zip(axes_a, axes_b):
        fixed[ib] = (-ta['s'][ia], cat.perturb_leg(rng, spec['sym'], ta['legs'][ia], mode if rng.random() < 0.7 else 'equal'))
        if ta['legs'][ia]['t']:
            prefer[ib] = rng.choice(ta['legs'][ia]['t'])
    tb = cat.rand_tensor_spec(rng, spec['sym'], rb, fixed=fixed, prefer=prefer, dims=_dims(spec), max_size=_maxsize(spec),
                              drop=spec.get('drop', 'none'), dtype=spec.get('dtype', 'real'))
    if tb is None:
        ctx.skip('no admissible partner structure')
    b = cat.build(ctx, tb, name_b, config=cfg)
    return a, b, axes_a, axes_b


def _lazy_keep(rng, x, state, axes):
    """apply a lazy state and translate axis numbers to the new logical order."""
    if x.ndim < 2 or state == 'plain':
        return x, list(axes)
    perm = list(range(x.ndim))
    rng.shuffle(perm)
    y = x.transpose(tuple(perm))
    if state == 'consumed':
        y = y.consume_transpose()
    elif state == 'copied':
        y = y.copy()
    inv = {p: i for i, p in enumerate(perm)}
    return y, [inv[ax] for ax in axes]


def _union_dense_pair(a, b, axes_a, axes_b):
    la, lb = list(a.get_legs(native=True)), list(b.get_legs(native=True))
    for ia, ib in zip(axes_a, axes_b):
        u = union_leg(la[ia], lb[ib].conj())
        la[ia], lb[ib] = u, u.conj()
    return reassemble(a, la), reassemble(b, lb), la, lb


def k_tensordot(ctx, rng, spec, cfg):
    import yastn
    k = spec.get('ncontr', 1)
    ra = rng.randint(max(k, 1), 4) if k < 3 else rng.randint(3, 4)
    rb = rng.randint(max(k, 1), 4 if ra + 0 <= 3 else 3)
    if ra + rb - 2 * k > 5:
        rb = max(k, 5 + 2 * k - ra - 1)
    a, b, axes_a, axes_b = _contract_pair(ctx, rng, spec, cfg, ra, rb, k)
    a, axes_a = _lazy_keep(rng, a, spec['lazy_a'], axes_a)
    b, axes_b = _lazy_keep(rng, b, spec.get('lazy_b', 'plain'), axes_b)
    A, B, la, lb = _union_dense_pair(a, b, axes_a, axes_b)
    symid = cfg.sym.SYM_ID
    conj_variant = rng.choice([(0, 0), (0, 0), (0, 0)])
    c = yastn.tensordot(a, b, axes=(tuple(axes_a), tuple(axes_b)))
    ref = np.tensordot(A, B, axes=(axes_a, axes_b))
    lc = [l for i, l in enumerate(la) if i not in axes_a] + [l for i, l in enumerate(lb) if i not in axes_b]
    wellformed(ctx, c, 'tensordot', expect_n=gadd(symid, [a.n, b.n], [1, 1]))
    check_result_legs(ctx, c, lc, 'tensordot')
    ctx.eq(reassemble(c, lc), ref, 'tensordot')
    # a @ b : last leg of a with first leg of b, when they match
    if k == 1 and axes_a[0] == a.ndim - 1 and axes_b[0] == 0:
        ctx.eq(reassemble(a @ b, lc), ref, 'matmul')
    return {'a': describe(a), 'b': describe(b), 'axes': (axes_a, axes_b)}


def k_tensordot_diag(ctx, rng, spec, cfg):
    import yastn
    # diagonal operand d on one (or two -> trace) legs of b
    td = cat.rand_diag_spec(rng, spec['sym'], dims=_dims(spec), dtype=spec.get('dtype', 'real'), s=rng.choice([(1, -1), (-1, 1)]))
    d = cat.build(ctx, td, 'd', config=cfg)
    rb = rng.randint(1, 4)
    ib = rng.randrange(rb)
    side = rng.choice([0, 1])         # which leg of d is contracted
    dleg_s = td['s'][side]
    mode = rng.choice(['equal', 'subset', 'superset'])
    fixed = {ib: (-dleg_s, cat.perturb_leg(rng, spec['sym'], td['legs'][0], mode))}
    tb = cat.rand_tensor_spec(rng, spec['sym'], rb, fixed=fixed, dims=_dims(spec), max_size=_maxsize(spec),
                              drop=spec.get('drop', 'none'), dtype=spec.get('dtype', 'real'))
    if tb is None:
        ctx.skip('no admissible partner')
    # dims must agree on common charges: copy d's dims into b's leg where charges coincide
    dD = dict(zip([tuple(t) for t in td['legs'][0]['t']], td['legs'][0]['D']))
    tb['legs'][ib]['D'] = [dD.get(tuple(t), D) for t, D in zip(tb['legs'][ib]['t'], tb['legs'][ib]['D'])]
    if cat.spec_size(tb) > _maxsize(spec):
        ctx.skip('too large')
    b = cat.build(ctx, tb, 'b', config=cfg)
    if rng.random() < 0.5 and spec['lazy_a'] != 'plain':
        d = d.transpose((1, 0))
        side = 1 - side
    b, (ib,) = _lazy_keep(rng, b, spec.get('lazy_b', 'plain'), [ib])
    ld = list(d.get_legs(native=True))
    lb = list(b.get_legs(native=True))
    u = union_leg(ld[side], lb[ib].conj())
    ld2 = [u, u.conj()] if side == 0 else [u.conj(), u]
    lb2 = list(lb)
    lb2[ib] = u.conj()
    Dm, B = reassemble(d, ld2), reassemble(b, lb2)
    symid = cfg.sym.SYM_ID
    # d first
    c = yastn.tensordot(d, b, axes=(side, ib))
    ref = np.tensordot(Dm, B, axes=(side, ib))
    lc = [ld2[1 - side]] + [l for i, l in enumerate(lb2) if i != ib]
    wellformed(ctx, c, 'diag.b', expect_n=b.n)
    check_result_legs(ctx, c, lc, 'diag.b')
    ctx.eq(reassemble(c, lc), ref, 'tensordot(diag,b)')
    # d second
    c = yastn.tensordot(b, d, axes=(ib, side))
    ref = np.tensordot(B, Dm, axes=(ib, side))
    lc = [l for i, l in enumerate(lb2) if i != ib] + [ld2[1 - side]]
    wellformed(ctx, c, 'b.diag', expect_n=b.n)
    check_result_legs(ctx, c, lc, 'b.diag')
    ctx.eq(reassemble(c, lc), ref, 'tensordot(b,diag)')
    return {'d': describe(d), 'b': describe(b)}


def k_vdot(ctx, rng, spec, cfg):
    import yastn
    rank = rng.randint(0, 4)
    a, ta = _operand(ctx, rng, spec, 'a', rank, cfg)
    variant = rng.choice(['10', '10', '00', '01', '11'])
    same_sig = variant in ('10', '01')
    tb = _partner_spec(rng, spec, ta, spec.get('overlap', 'equal'), s_sign=1 if same_sig else -1)
    if rng.random() < 0.2 and cfg.sym.NSYM:
        pass
    if cat.spec_size(tb) > _maxsize(spec):
        ctx.skip('partner too large')
    b = cat.build(ctx, tb, 'b', config=cfg)
    perm = list(range(rank))
    rng.shuffle(perm)
    def put(x, state):
        if rank < 2 or state == 'plain':
            return x
        y = x.transpose(tuple(perm))
        return y if state == 'lazy' else (y.consume_transpose() if state == 'consumed' else y.copy())
    la_, lb_ = spec['lazy_a'], spec.get('lazy_b', 'plain')
    if (la_ == 'plain') != (lb_ == 'plain'):
        lb_ = la_
    a, b = put(a, la_), put(b, lb_)
    cj = (int(variant[0]), int(variant[1]))
    la, lb = list(a.get_legs(native=True)) if rank else [], list(b.get_legs(native=True)) if rank else []
    U = [union_leg(x, y if same_sig else y.conj()) for x, y in zip(la, lb)]
    A = reassemble(a, U)
    B = reassemble(b, U if same_sig else [u.conj() for u in U])
    X = dense.conj(A) if cj[0] else A
    Y = dense.conj(B) if cj[1] else B
    ref = (X * Y).sum() if rank else X * Y
    got = yastn.vdot(a, b, conj=cj)
    ctx.eq([got], [ref], f'vdot conj={cj}')
    return {'a': describe(a), 'b': describe(b)}


def k_trace(ctx, rng, spec, cfg):
    import yastn
    rank = max(2, spec.get('rank', 2))
    npairs = rng.randint(1, rank // 2)
    # build signature/legs so that pairs (p, q) are conjugate spaces
    pos = list(range(rank))
    rng.shuffle(pos)
    pairs = [(pos[2 * i], pos[2 * i + 1]) for i in range(npairs)]
    ts0 = cat.rand_tensor_spec(rng, spec['sym'], rank, dims=_dims(spec), max_size=10 ** 6)
    if ts0 is None:
        ctx.skip('none')
    fixed = {}
    for p, q in pairs:
        fixed[q] = (-ts0['s'][p], cat.perturb_leg(rng, spec['sym'], ts0['legs'][p], rng.choice(['equal', 'equal', 'subset', 'superset'])))
        fixed[p] = (ts0['s'][p], ts0['legs'][p])
    ts = cat.rand_tensor_spec(rng, spec['sym'], rank, fixed=fixed, dims=_dims(spec), max_size=_maxsize(spec),
                              drop=spec.get('drop', 'none'), dtype=spec.get('dtype', 'real'),
                              prefer=_prefer_pairs(rng, ts0, pairs))
    if ts is None:
        ctx.skip('no admissible structure')
    a = cat.build(ctx, ts, 'a', config=cfg)
    ax0, ax1 = [p for p, _ in pairs], [q for _, q in pairs]
    a, ax = _lazy_keep(rng, a, spec['lazy_a'], ax0 + ax1)
    ax0, ax1 = ax[:npairs], ax[npairs:]
    la = list(a.get_legs(native=True))
    for p, q in zip(ax0, ax1):
        u = union_leg(la[p], la[q].conj())
        la[p], la[q] = u, u.conj()
    A = reassemble(a, la)
    c = a.trace(axes=(tuple(ax0), tuple(ax1))) if npairs > 1 or rng.random() < 0.5 else a.trace(axes=(ax0[0], ax1[0]))
    # numpy reference: successive traces
    ref = A
    rem = list(range(rank))
    for p, q in zip(ax0, ax1):
        ref = np.trace(ref, axis1=rem.index(p), axis2=rem.index(q))
        rem = [r for r in rem if r not in (p, q)]
    lc = [la[r] for r in rem]
    wellformed(ctx, c, 'trace', expect_n=a.n)
    check_result_legs(ctx, c, lc, 'trace')
    ctx.eq(reassemble(c, lc), ref, 'trace')
    return describe(a)


def _prefer_pairs(rng, ts0, pairs):
    out = {}
    for p, q in pairs:
        if ts0['legs'][p]['t']:
            t = rng.choice(ts0['legs'][p]['t'])
            out[p] = t
            out[q] = t
    return out


def k_broadcast(ctx, rng, spec, cfg):
    import yastn
    td = cat.rand_diag_spec(rng, spec['sym'], dims=_dims(spec), dtype=spec.get('dtype', 'real'), s=rng.choice([(1, -1), (-1, 1)]))
    d = cat.build(ctx, td, 'd', config=cfg)
    rb = rng.randint(1, 4)
    ib = rng.randrange(rb)
    mode = rng.choice(['equal', 'subset', 'superset'])
    fixed = {ib: (rng.choice([1, -1]), cat.perturb_leg(rng, spec['sym'], td['legs'][0], mode))}
    tb = cat.rand_tensor_spec(rng, spec['sym'], rb, fixed=fixed, dims=_dims(spec), max_size=_maxsize(spec),
                              drop=spec.get('drop', 'none'), dtype=spec.get('dtype', 'real'))
    if tb is None:
        ctx.skip('none')
    dD = dict(zip([tuple(t) for t in td['legs'][0]['t']], td['legs'][0]['D']))
    tb['legs'][ib]['D'] = [dD.get(tuple(t), D) for t, D in zip(tb['legs'][ib]['t'], tb['legs'][ib]['D'])]
    if cat.spec_size(tb) > _maxsize(spec):
        ctx.skip('too large')
    b = cat.build(ctx, tb, 'b', config=cfg)
    b, (ib,) = _lazy_keep(rng, b, spec.get('lazy_b', 'plain'), [ib])
    lb = list(b.get_legs(native=True))
    ld = d.get_legs(native=True)
    # dense: multiply axis ib of B by the diagonal entries of d (missing sectors of d act as 0, as in tensordot)
    u = union_leg(yastn.Leg(cfg, s=lb[ib].s, t=ld[0].t, D=ld[0].D), lb[ib])
    lb2 = list(lb)
    lb2[ib] = u
    B = reassemble(b, lb2)
    dvec = np.zeros(sum(u.D), dtype=B.dtype if B.dtype == object else (np.complex128 if spec.get('dtype') == 'complex' else np.float64))
    offs = dense.offsets(u)[0]
    for t in ld[0].t:
        lo, hi = offs[tuple(t)]
        dvec[lo:hi] = d[tuple(t) + tuple(t)]
    shp = [1] * rb
    shp[ib] = -1
    ref = B * dvec.reshape(shp)
    ax_arg = ib if rng.random() < 0.7 else ib - rb
    c = d.broadcast(b, axes=ax_arg)
    wellformed(ctx, c, 'broadcast', expect_n=b.n)
    check_result_legs(ctx, c, lb2, 'broadcast')
    ctx.eq(reassemble(c, lb2), ref, 'broadcast')
    return {'d': describe(d), 'b': describe(b)}


def k_mask(ctx, rng, spec, cfg):
    import yastn
    # mask = diagonal tensor with concrete 0/1 (or bool) entries; applied to a symbolic tensor
    td = cat.rand_diag_spec(rng, spec['sym'], dims=(1, 2, 3), dtype='real', s=(1, -1))
    m = cat.build(ctx, dict(td), 'unused_mask_symbols', config=cfg)
    bits = [rng.random() < 0.6 for _ in range(m.size)]
    if rng.random() < 0.5:
        m._data = np.array(bits, dtype=bool)
    else:
        m._data = np.array([1.0 if x else 0.0 for x in bits]) if ctx.mode == 'float' else np.array([1 if x else 0 for x in bits] + [None], dtype=object)[:-1]
    rb = rng.randint(1, 4)
    ib = rng.randrange(rb)
    mode = rng.choice(['equal', 'subset', 'superset'])
    fixed = {ib: (rng.choice([1, -1]), cat.perturb_leg(rng, spec['sym'], td['legs'][0], mode))}
    tb = cat.rand_tensor_spec(rng, spec['sym'], rb, fixed=fixed, dims=_dims(spec), max_size=_maxsize(spec),
                              drop=spec.get('drop', 'none'), dtype=spec.get('dtype', 'real'))
    if tb is None:
        ctx.skip('none')
    dD = dict(zip([tuple(t) for t in td['legs'][0]['t']], td['legs'][0]['D']))
    tb['legs'][ib]['D'] = [dD.get(tuple(t), D) for t, D in zip(tb['legs'][ib]['t'], tb['legs'][ib]['D'])]
    if cat.spec_size(tb) > _maxsize(spec):
        ctx.skip('too large')
    b = cat.build(ctx, tb, 'b', config=cfg)
    b, (ib,) = _lazy_keep(rng, b, spec.get('lazy_b', 'plain'), [ib])
    lb = list(b.get_legs(native=True))
    B = reassemble(b)
    lm = m.get_legs(native=True)[0]
    # reference: keep, along axis ib, exactly the indices whose sector is in the mask and whose mask bit is set
    keep, newt, newD = [], [], []
    offs = dense.offsets(lb[ib])[0]
    pos = 0
    mbits = {}
    for t, D in zip(lm.t, lm.D):
        mbits[tuple(t)] = bits[pos:pos + D]
        pos += D
    for t, D in zip(lb[ib].t, lb[ib].D):
        if tuple(t) in mbits:
            sel = [offs[tuple(t)][0] + j for j, bit in enumerate(mbits[tuple(t)]) if bit]
            if sel:
                keep.extend(sel)
                newt.append(t)
                newD.append(len(sel))
    c = m.apply_mask(b, axes=ib)
    ref = np.take(B, keep, axis=ib) if keep else B[(slice(None),) * ib + (slice(0, 0),)]
    wellformed(ctx, c, 'apply_mask', expect_n=b.n)
    lc = list(lb)
    if newt:
        lc[ib] = yastn.Leg(cfg, s=lb[ib].s, t=newt, D=newD)
        check_result_legs(ctx, c, lc, 'apply_mask')
        ctx.eq(reassemble(c, lc), ref, 'apply_mask')
    else:
        ctx.check(c.size == 0, 'apply_mask:empty', c.size)
    return {'m': describe(m), 'b': describe(b)}


def k_diag(ctx, rng, spec, cfg):
    import yastn
    # (i) diagonal -> matrix -> diagonal ; (ii) square-block matrix -> its diagonal
    td = cat.rand_diag_spec(rng, spec['sym'], dims=_dims(spec) + (3,), dtype=spec.get('dtype', 'real'), s=rng.choice([(1, -1), (-1, 1)]))
    d = cat.build(ctx, td, 'd', config=cfg)
    if spec['lazy_a'] in ('lazy', 'copied'):
        d = d.transpose((1, 0))
    Dm = reassemble(d)
    m = d.diag()
    wellformed(ctx, m, 'diag->matrix', expect_n=d.n)
    ctx.check(not m.isdiag, 'diag->matrix:isdiag')
    ld = d.get_legs(native=True)
    got = m.get_legs(native=True)
    ctx.check(all(dense.legs_equal(x, y) for x, y in zip(got, ld)), 'diag->matrix:legs', [(x.s, x.t, y.s, y.t) for x, y in zip(got, ld)])
    ctx.eq(reassemble(m, ld), Dm, 'diag->matrix')
    # matrix with square blocks
    leg = td['legs'][0]
    s0 = rng.choice([1, -1])
    ts = {'sym': spec['sym'], 'fermionic': False, 's': [s0, -s0], 'legs': [leg, leg], 'n': list(cfg.sym.zero()) if cfg.sym.NSYM else [],
          'blocks': None, 'dtype': spec.get('dtype', 'real'), 'isdiag': False}
    if spec.get('drop') == 'some' and len(leg['t']) > 1:
        ts['blocks'] = [list(t) + list(t) for t in leg['t'] if rng.random() < 0.6] or [list(leg['t'][0]) * 2]
    a = cat.build(ctx, ts, 'a', config=cfg)
    if spec['lazy_a'] == 'lazy':
        a = a.transpose((1, 0))
    elif spec['lazy_a'] == 'consumed':
        a = a.transpose((1, 0)).consume_transpose()
    A = reassemble(a)
    la = a.get_legs(native=True)
    c = a.diag()
    wellformed(ctx, c, 'matrix->diag', expect_n=a.n)
    ctx.check(c.isdiag, 'matrix->diag:isdiag')
    gc = c.get_legs(native=True)
    ctx.check(all(dense.legs_equal(x, y) for x, y in zip(gc, la)), 'matrix->diag:legs',
              [(x.s, x.t, y.s, y.t) for x, y in zip(gc, la)])
    ref = np.zeros(A.shape, dtype=A.dtype)
    for i in range(A.shape[0]):
        ref[i, i] = A[i, i]
    ctx.eq(reassemble(c, la), ref, 'matrix->diag')
    return {'d': describe(d), 'a': describe(a)}


def k_addremove(ctx, rng, spec, cfg):
    import yastn
    rank = spec.get('rank', 2)
    a, ta = _operand(ctx, rng, spec, 'a', rank, cfg)
    a = lazy(rng, a, spec['lazy_a'])
    A = reassemble(a)
    la = list(a.get_legs(native=True)) if rank else []
    v = spec['variant']
    symid = cfg.sym.SYM_ID
    nsym = cfg.sym.NSYM
    axis = rng.randint(-(rank + 1), rank)
    pos = axis % (rank + 1)
    s = rng.choice([1, -1])
    if v in ('add_default', 'add_charge', 'add_leg_obj', 'add_remove'):
        if v == 'add_default':
            c = a.add_leg(axis=axis, s=s)
            t = gadd(symid, [a.n], [-1], s)
        elif v in ('add_charge', 'add_remove'):
            t = rng.choice(cat.window(spec['sym']))
            c = a.add_leg(axis=axis, s=s, t=t if nsym != 1 or rng.random() < 0.5 else t[0])
        else:
            t = rng.choice(cat.window(spec['sym']))
            c = a.add_leg(axis=axis, leg=yastn.Leg(cfg, s=s, t=[t], D=[1]))
        newleg = yastn.Leg(cfg, s=s, t=[tuple(t)], D=[1])
        lc = la[:pos] + [newleg] + la[pos:]
        wellformed(ctx, c, v, expect_n=gadd(symid, [a.n, t], [1, s]))
        got = c.get_legs(native=True)
        ctx.check(len(got) == rank + 1 and all(dense.legs_equal(x, y) for x, y in zip(got, lc)), f'{v}:legs', [(x.s, x.t) for x in got])
        ctx.eq(reassemble(c, lc), np.expand_dims(A, pos), v)
        if v == 'add_remove':
            r = c.remove_leg(axis=axis if axis >= 0 else axis)
            wellformed(ctx, r, 'remove(add)', expect_n=a.n)
            ctx.eq(reassemble(r, la if rank else None), A, 'remove(add)')
    elif v == 'remove':
        # build a tensor having a dimension-one single-sector leg: add it first through set_block API
        t = rng.choice(cat.window(spec['sym']))
        c0 = a.add_leg(axis=pos, s=s, t=t).consume_transpose() if rng.random() < 0.5 else a.add_leg(axis=pos, s=s, t=t)
        c0 = lazy(rng, c0, rng.choice(['plain', 'lazy']))
        # find where the new leg went
        legs0 = c0.get_legs(native=True)
        C0 = reassemble(c0)
        cand = [i for i, l in enumerate(legs0) if l.D == (1,)]
        i = rng.choice(cand)
        r = c0.remove_leg(axis=i if rng.random() < 0.5 else i - c0.ndim)
        wellformed(ctx, r, 'remove', expect_n=gadd(symid, [c0.n, legs0[i].t[0]], [-1, legs0[i].s], -1))
        lr = [l for j, l in enumerate(legs0) if j != i]
        got = r.get_legs(native=True) if r.ndim_n else []
        ctx.check(all(dense.legs_equal(x, y) for x, y in zip(got, lr)), 'remove:legs')
        ctx.eq(reassemble(r, lr if lr else None), np.squeeze(C0, axis=i), 'remove')
    return describe(a)


def k_ncon(ctx, rng, spec, cfg):
    import yastn
    # chain / triangle networks of 3 tensors with one open leg each, optional trace inside a tensor
    shape = rng.choice(['chain3', 'triangle', 'pair_trace'])
    if shape == 'chain3':
        a, b, (ia,), (ib,) = _contract_pair(ctx, rng, spec, cfg, 2, 3, 1)
        # c contracts with a remaining leg of b
        lbs = [i for i in range(3) if i != ib]
        jb = rng.choice(lbs)
        tb_leg = b.get_legs(native=True)[jb]
        fixed = {0: (-tb_leg.s, {'t': [list(t) for t in tb_leg.t], 'D': list(tb_leg.D)})}
        tc = cat.rand_tensor_spec(rng, spec['sym'], 2, fixed=fixed, dims=_dims(spec), max_size=_maxsize(spec), dtype=spec.get('dtype', 'real'))
        if tc is None:
            ctx.skip('none')
        c = cat.build(ctx, tc, 'c', config=cfg)
        a, (ia,) = _lazy_keep(rng, a, spec['lazy_a'], [ia])
        b, (ib, jb) = _lazy_keep(rng, b, spec.get('lazy_b', 'plain'), [ib, jb])
        inds_a = [-1, -1]; inds_a[ia] = 1; inds_a[1 - ia] = -1
        inds_b = [0, 0, 0]; inds_b[ib] = 1; inds_b[jb] = 2
        ob = [i for i in range(3) if i not in (ib, jb)][0]
        inds_b[ob] = -2
        inds_c = [2, -3]
        res = yastn.ncon([a, b, c], [inds_a, inds_b, inds_c])
        A, B, la, lb = _union_dense_pair(a, b, [ia], [ib])
        C = reassemble(c)
        lc_ = list(c.get_legs(native=True))
        # union on the b-c bond
        u = union_leg(lb[jb], lc_[0].conj())
        lb[jb] = u
        B = reassemble(b, lb)
        C = reassemble(c, [u.conj(), lc_[1]])
        sub = 'xyz'
        ea = ''.join('i' if k == ia else 'a' for k in range(2))
        eb = ''.join('i' if k == ib else ('j' if k == jb else 'b') for k in range(3))
        ref = _einsum(f'{ea},{eb},jc->abc', A, B, C)
        lres = [la[1 - ia], lb[ob], lc_[1]]
        symid = cfg.sym.SYM_ID
        wellformed(ctx, res, 'ncon-chain', expect_n=gadd(symid, [a.n, b.n, c.n], [1, 1, 1]))
        check_result_legs(ctx, res, lres, 'ncon-chain')
        ctx.eq(reassemble(res, lres), ref, 'ncon-chain')
        # einsum with the same network
        res2 = yastn.einsum(f'{ea},{eb},jc->abc', a, b, c)
        ctx.eq(reassemble(res2, lres), ref, 'einsum-chain')
        return {'a': describe(a), 'b': describe(b), 'c': describe(c)}
    if shape == 'pair_trace':
        # ncon with a trace inside one tensor: a[1,1,-1 or 2], b[2,-2]
        ts0 = cat.rand_tensor_spec(rng, spec['sym'], 3, dims=_dims(spec), max_size=10 ** 6)
        if ts0 is None:
            ctx.skip('none')
        fixed = {0: (ts0['s'][0], ts0['legs'][0]), 1: (-ts0['s'][0], ts0['legs'][0])}
        pt = rng.choice(ts0['legs'][0]['t'])
        ta = cat.rand_tensor_spec(rng, spec['sym'], 3, fixed=fixed, prefer={0: pt, 1: pt}, dims=_dims(spec), max_size=_maxsize(spec),
                                  drop=spec.get('drop', 'none'), dtype=spec.get('dtype', 'real'))
        if ta is None:
            ctx.skip('none')
        a = cat.build(ctx, ta, 'a', config=cfg)
        a, (p, q, r) = _lazy_keep(rng, a, spec['lazy_a'], [0, 1, 2])
        inds = [0, 0, 0]
        inds[p] = 1; inds[q] = 1; inds[r] = -1
        res = yastn.ncon([a], [inds])
        la = list(a.get_legs(native=True))
        u = union_leg(la[p], la[q].conj())
        la[p], la[q] = u, u.conj()
        A = reassemble(a, la)
        ref = np.trace(A, axis1=p, axis2=q)
        lres = [la[r]]
        wellformed(ctx, res, 'ncon-trace', expect_n=a.n)
        check_result_legs(ctx, res, lres, 'ncon-trace')
        ctx.eq(reassemble(res, lres), ref, 'ncon-trace')
        return {'a': describe(a)}
    # triangle: a[1,2] b[-1... ] simplified: a(i,j) b(j,k) c(k,i) -> scalar, plus conjs flag on one tensor
    a, b, (ia,), (ib,) = _contract_pair(ctx, rng, spec, cfg, 2, 2, 1)
    la, lb = a.get_legs(native=True), b.get_legs(native=True)
    fixed = {0: (-lb[1 - ib].s, {'t': [list(t) for t in lb[1 - ib].t], 'D': list(lb[1 - ib].D)}),
             1: (-la[1 - ia].s, {'t': [list(t) for t in la[1 - ia].t], 'D': list(la[1 - ia].D)})}
    tc = cat.rand_tensor_spec(rng, spec['sym'], 2, fixed=fixed, dims=_dims(spec), max_size=_maxsize(spec), dtype=spec.get('dtype', 'real'),
                              drop=spec.get('drop', 'none'))
    if tc is None:
        ctx.skip('none')
    c = cat.build(ctx, tc, 'c', config=cfg)
    inds_a = [0, 0]; inds_a[ia] = 1; inds_a[1 - ia] = 3
    inds_b = [0, 0]; inds_b[ib] = 1; inds_b[1 - ib] = 2
    res = yastn.ncon([a, b, c], [inds_a, inds_b, [2, 3]])
    A, B, la2, lb2 = _union_dense_pair(a, b, [ia], [ib])
    C = reassemble(c, [lb2[1 - ib].conj(), la2[1 - ia].conj()])
    ea = ''.join('i' if k == ia else 'l' for k in range(2))
    eb = ''.join('i' if k == ib else 'k' for k in range(2))
    ref = _einsum(f'{ea},{eb},kl->', A, B, C)
    ctx.check(res.ndim == 0, 'ncon-triangle:rank', res.ndim)
    wellformed(ctx, res, 'ncon-triangle')
    ctx.eq([res.to_number()], [ref], 'ncon-triangle')
    return {'a': describe(a), 'b': describe(b), 'c': describe(c)}


def _einsum(expr, *ops):
    """np.einsum for object arrays via explicit tensordot chain (np.einsum does not support dtype=object sums reliably)."""
    ins, out = expr.split('->')
    ins = ins.split(',')
    cur, cur_idx = ops[0], list(ins[0])
    for op, idx in zip(ops[1:], ins[1:]):
        idx = list(idx)
        common = [x for x in cur_idx if x in idx]
        cur = np.tensordot(cur, op, axes=([cur_idx.index(x) for x in common], [idx.index(x) for x in common]))
        cur_idx = [x for x in cur_idx if x not in common] + [x for x in idx if x not in common]
    # traces over repeated remaining labels are not used here
    if out == '':
        return cur[()] if isinstance(cur, np.ndarray) and cur.ndim == 0 else cur
    return np.transpose(cur, [cur_idx.index(x) for x in out])


def k_output(ctx, rng, spec, cfg):
    import yastn
    rank = spec.get('rank', 2)
    a, ta = _operand(ctx, rng, spec, 'a', rank, cfg)
    a = lazy(rng, a, spec['lazy_a'])
    A = reassemble(a)
    la = list(a.get_legs(native=True)) if rank else []
    v = spec['variant']
    if v in ('to_numpy', 'to_dense_native'):
        got = a.to_numpy() if v == 'to_numpy' else a.to_dense(native=True)
        ctx.check(tuple(got.shape) == tuple(A.shape), f'{v}:shape', (got.shape, A.shape))
        ctx.check(tuple(a.get_shape()) == tuple(A.shape), f'{v}:get_shape', (a.get_shape(), A.shape))
        ctx.eq(got, A, v)
    elif v == 'to_numpy_legs':
        if rank == 0:
            ctx.skip('rank 0')
        # embed into wider legs: only zeros may be added, existing data keeps its sector position
        wide = {}
        for i in rng.sample(range(rank), rng.randint(1, rank)):
            w = cat.perturb_leg(rng, spec['sym'], {'t': [list(t) for t in la[i].t], 'D': list(la[i].D)}, 'superset')
            wide[i] = yastn.Leg(cfg, s=la[i].s, t=[tuple(t) for t in w['t']], D=w['D'])
        got = a.to_numpy(legs=wide)
        full = [wide.get(i, la[i]) for i in range(rank)]
        ctx.eq(got, reassemble(a, full), v)
    elif v == 'to_numpy_reverse':
        got = a.to_numpy(reverse=True)
        # sectors in descending charge order on every leg
        idx = []
        for l in la:
            offs = dense.offsets(l)[0]
            order = []
            for t in l.t[::-1]:
                order.extend(range(*offs[tuple(t)]))
            idx.append(order)
        ref = A[np.ix_(*idx)] if rank else A
        ctx.eq(got, ref, v)
    elif v == 'to_nonsymmetric':
        c = a.to_nonsymmetric()
        ctx.check(c.config.sym.NSYM == 0, f'{v}:sym')
        ctx.check(tuple(c.get_shape()) == tuple(A.shape), f'{v}:shape', (c.get_shape(), A.shape))
        ctx.check(tuple(c.get_signature()) == tuple(a.get_signature(native=True)) if rank else True, f'{v}:signature')
        wellformed(ctx, c, v)
        ctx.eq(c.to_numpy(), A, v)
        ctx.eq(reassemble(c), A, v + ':blocks')
    elif v == 'blocks':
        # every stored block is reachable by its charges, `in` agrees with block access, nothing else is stored
        nsym = cfg.sym.NSYM
        nfound = 0
        for combo in itertools.product(*[l.t for l in la]):
            key = sum((tuple(t) for t in combo), ())
            try:
                blk = a[key]
                nfound += 1
                ctx.check(tuple(blk.shape) == tuple(l[t] for l, t in zip(la, combo)), 'blocks:shape', (key, blk.shape))
            except yastn.YastnError:
                pass
        if rank:
            ctx.check(nfound == len(a.get_blocks_charge()), 'blocks:count', (nfound, len(a.get_blocks_charge())))
        ctx.eq(a.to_numpy(), A, 'blocks:to_numpy')
    return describe(a)


def k_elementwise(ctx, rng, spec, cfg):
    """f applied to stored blocks only (documented); compared block-wise on the stored elements."""
    rank = rng.randint(1, 3)
    if spec.get('dtype') == 'complex':
        ctx.skip('element-wise real functions only')
    v = spec['variant']
    a, ta = _operand(ctx, rng, spec, 'a', rank, cfg, dims=(1, 2), max_size=6 if v.endswith('cut') or v in ('reciprocal', 'rsqrt') else 12)
    a = lazy(rng, a, spec['lazy_a'])
    if v in ('sqrt', 'rsqrt'):
        for x in (a._data if ctx.mode == 'sym' else []):
            ctx.assume(x >= 0)
        if ctx.mode == 'float':
            a._data = np.abs(a._data)
    la = a.get_legs(native=True)
    if v == 'exp':
        step = ctx.scalar('step')
        c = a.exp(step)
        f = lambda x: (step * x).exp() if hasattr(x, 'exp') else np.exp(step * x)
    elif v == 'sqrt':
        c = a.sqrt()
        f = None
    elif v in ('rsqrt', 'rsqrt_cut'):
        cut = 0 if v == 'rsqrt' else 0.25
        if v == 'rsqrt_cut':
            for x in (a._data if ctx.mode == 'sym' else []):
                ctx.assume(x >= 0)
            if ctx.mode == 'float':
                a._data = np.abs(a._data)
        c = a.rsqrt(cutoff=cut)
        f = None
    else:
        cut = 0 if v == 'reciprocal' else 0.25
        c = a.reciprocal(cutoff=cut)
        f = None
    wellformed(ctx, c, v, expect_n=a.n, check_dense_zero=(v != 'exp'))
    check_result_legs(ctx, c, la, v)
    for combo in itertools.product(*[l.t for l in la]):
        key = sum((tuple(t) for t in combo), ())
        try:
            ba = a[key]
        except __import__('yastn').YastnError:
            continue
        bc = c[key]
        for x, y in zip(ba.ravel(), bc.ravel()):
            if v == 'exp':
                ctx.eq([y], [f(x)], 'exp')
            elif v == 'sqrt':
                ctx.eq([y * y], [x], 'sqrt^2')
                ctx.prove(y >= 0, 'sqrt>=0')
            elif v.startswith('rsqrt'):
                if abs(x) > cut:
                    ctx.eq([y * y * x], [1], 'rsqrt')
                    ctx.prove(y >= 0, 'rsqrt>=0')
                else:
                    ctx.eq([y], [0], 'rsqrt-cut')
            else:
                if abs(x) > cut:
                    ctx.eq([y * x], [1], 'reciprocal')
                else:
                    ctx.eq([y], [0], 'reciprocal-cut')
    return describe(a)


def k_meta_operand(ctx, rng, spec, cfg):
    """leg-addressed operations on an operand that is meta-fused on OTHER legs and lazily transposed: must equal the operation on the plain,
    materialised operand (differential; the plain operation itself is compared with NumPy in the other kinds)."""
    import yastn
    v = spec['variant']
    rb = rng.randint(3, 4)
    td = cat.rand_diag_spec(rng, spec['sym'], dims=(1, 2), dtype='real', s=(1, -1))
    ib = rng.randrange(rb)
    fixed = {ib: (rng.choice([1, -1]), td['legs'][0])} if v in ('mask', 'broadcast', 'dot_diag') else {}
    if v == 'remove_leg' and cfg.sym.NSYM:
        fixed = {ib: (rng.choice([1, -1]), {'t': [rng.choice(cat.window(spec['sym']))], 'D': [1]})}
    elif v == 'remove_leg':
        fixed = {ib: (1, {'t': [[]], 'D': [1]})}
    tb = cat.rand_tensor_spec(rng, spec['sym'], rb, fixed=fixed, dims=(1, 2), nsect=(1, 2), max_size=_maxsize(spec), drop=spec.get('drop', 'none'),
                              dtype=spec.get('dtype', 'real'), prefer={ib: fixed[ib][1]['t'][0]} if v == 'remove_leg' else None)
    if tb is None:
        ctx.skip('none')
    b = cat.build(ctx, tb, 'b', config=cfg)
    if v == 'dot_diag':
        tb_s = tb['s'][ib]
        td = dict(td, s=[-tb_s, tb_s] if rng.random() < 0.5 else [tb_s, -tb_s])
    d = cat.build(ctx, td, 'd', config=cfg)
    if v == 'mask':
        d._data = np.array([(i % 3 != 1) for i in range(d.size)], dtype=bool)
    others = [i for i in range(rb) if i != ib]
    j, k = rng.sample(others, 2)
    rest = [i for i in others if i not in (j, k)]
    # meta-fuse (j, k); arrange groups in random order
    groups = [(ib,), (j, k)] + [(x,) for x in rest]
    rng.shuffle(groups)
    b2 = b.fuse_legs(axes=tuple(g if len(g) > 1 else g[0] for g in groups), mode='meta')
    perm = list(range(len(groups))); rng.shuffle(perm)
    if spec['lazy_a'] != 'plain':
        b2 = b2.transpose(tuple(perm))
        groups = [groups[p] for p in perm]
    if spec['lazy_a'] == 'consumed':
        b2 = b2.consume_transpose()
    pos = groups.index((ib,))                      # logical position of the target leg in b2
    fpos = groups.index((j, k))
    native_order = [x for g in groups for x in g]
    bp = b.transpose(tuple(native_order)).consume_transpose()       # plain operand with the same native leg order
    npos = native_order.index(ib)
    def plain(r, fused_at):
        """un-fuse the meta leg of a result and materialise"""
        return r.unfuse_legs(axes=fused_at).consume_transpose()
    if v == 'mask':
        r2, r1, f = d.apply_mask(b2, axes=pos), d.apply_mask(bp, axes=npos), fpos
    elif v == 'broadcast':
        r2, r1, f = d.broadcast(b2, axes=pos), d.broadcast(bp, axes=npos), fpos
    elif v == 'dot_diag':
        side = 0 if d.get_legs(0).s == -b2.get_legs(pos).s else 1
        r2, r1 = yastn.tensordot(b2, d, axes=(pos, side)), yastn.tensordot(bp, d, axes=(npos, side))
        f = fpos - (1 if fpos > pos else 0)
    elif v == 'add_leg':
        ax = rng.randint(0, len(groups))
        nat_ax = sum(len(g) for g in groups[:ax])
        r2, r1 = b2.add_leg(axis=ax, s=1), bp.add_leg(axis=nat_ax, s=1)
        f = fpos + (1 if ax <= fpos else 0)
    elif v == 'flip_charges':
        r2, r1, f = b2.flip_charges(axes=pos), bp.flip_charges(axes=npos), fpos
    elif v == 'switch_signature':
        r2, r1, f = b2.switch_signature(axes=[pos]), bp.switch_signature(axes=[npos]), fpos
    elif v == 'remove_leg':
        r2, r1 = b2.remove_leg(axis=pos), bp.remove_leg(axis=npos)
        f = fpos - (1 if fpos > pos else 0)
    elif v == 'getitem':
        # block access on the meta-fused lazy operand addresses native legs in logical order
        for t, D in zip(bp.struct.t, bp.struct.D):
            ctx.eq(b2[t], bp[t], 'block access')
        ctx.eq(b2.to_numpy(native=True), bp.to_numpy(), 'to_numpy(native=True)')
        return describe(b)
    wellformed(ctx, r2, f'meta-operand:{v}', check_dense_zero=False)
    r2p = plain(r2, f)
    r1 = r1.consume_transpose()
    ctx.check(r2p.struct.s == r1.struct.s and r2p.n == r1.n, f'meta-operand:{v}:signature/charge', (r2p.struct.s, r1.struct.s))
    legs = list(r1.get_legs(native=True))
    got = r2p.get_legs(native=True)
    ctx.check(len(got) == len(legs) and all(dense.legs_equal(x, y) for x, y in zip(got, legs)), f'meta-operand:{v}:legs', [(x.t, x.D, y.t, y.D) for x, y in zip(got, legs)])
    ctx.eq(reassemble(r2p, legs), reassemble(r1, legs), f'{v} on meta-fused + lazily transposed operand == on plain operand')
    return describe(b)


def k_mixed_dtype(ctx, rng, spec, cfg):
    """one real and one complex operand (dtype promotion).  On the symbolic backend both are exact terms; the concrete NumPy dtypes of the
    buffers are observable on the float backend only, so this kind is also run on EVERY case in the float cross-run."""
    import yastn
    v = spec['variant']
    first_complex = rng.random() < 0.5
    da, db = ('complex', 'real') if first_complex else ('real', 'complex')
    if v in ('dot_diag', 'broadcast'):
        td = cat.rand_diag_spec(rng, spec['sym'], dims=(1, 2), dtype=da, s=rng.choice([(1, -1), (-1, 1)]))
        d = cat.build(ctx, td, 'd', config=cfg)
        rb = rng.randint(1, 3)
        ib = rng.randrange(rb)
        fixed = {ib: (-td['s'][1], td['legs'][0])}
        tb = cat.rand_tensor_spec(rng, spec['sym'], rb, fixed=fixed, dims=(1, 2), max_size=60, dtype=db, drop=spec.get('drop', 'none'))
        if tb is None:
            ctx.skip('none')
        dD = dict(zip([tuple(t) for t in td['legs'][0]['t']], td['legs'][0]['D']))
        tb['legs'][ib]['D'] = [dD.get(tuple(t), D) for t, D in zip(tb['legs'][ib]['t'], tb['legs'][ib]['D'])]
        b = cat.build(ctx, tb, 'b', config=cfg)
        ld, lb = list(d.get_legs(native=True)), list(b.get_legs(native=True))
        u = union_leg(ld[1], lb[ib].conj())
        lb2 = list(lb); lb2[ib] = u.conj()
        Dm, B = reassemble(d, [u.conj(), u]), reassemble(b, lb2)
        if v == 'dot_diag':
            c = yastn.tensordot(d, b, axes=(1, ib))
            ref = np.tensordot(Dm, B, axes=(1, ib))
            lc = [u.conj()] + [l for i, l in enumerate(lb2) if i != ib]
        else:
            c = d.broadcast(b, axes=ib)
            dv = np.array([Dm[i, i] for i in range(Dm.shape[0])], dtype=Dm.dtype)
            shp = [1] * rb; shp[ib] = -1
            ref = B * dv.reshape(shp)
            lc = lb2
        ctx.eq(reassemble(c, lc), ref, f'{v} with {da} diagonal and {db} tensor')
        if ctx.mode == 'float':
            ctx.check(c.yastn_dtype == 'complex128', f'{v}:promoted-dtype', c.yastn_dtype)
        return {'d': describe(d), 'b': describe(b)}
    if v == 'tensordot':
        spec2 = dict(spec, dtype=da)
        a, b, axes_a, axes_b = _contract_pair(ctx, rng, spec2, cfg, 2, 2, 1)
        ctx.fill(b, 'bb', db)
        A, B, la, lb = _union_dense_pair(a, b, axes_a, axes_b)
        c = yastn.tensordot(a, b, axes=(tuple(axes_a), tuple(axes_b)))
        lc = [l for i, l in enumerate(la) if i not in axes_a] + [l for i, l in enumerate(lb) if i not in axes_b]
        ctx.eq(reassemble(c, lc), np.tensordot(A, B, axes=(axes_a, axes_b)), f'tensordot({da}, {db})')
        if ctx.mode == 'float':
            ctx.check(c.yastn_dtype == 'complex128', 'tensordot:promoted-dtype', c.yastn_dtype)
        return {'a': describe(a), 'b': describe(b)}
    a, ta = _operand(ctx, rng, spec, 'a', rng.randint(1, 3), cfg, dtype=da)
    if v == 'mul_complex':
        z = ctx.scalar('z', 'complex')
        c = a * z
        ctx.eq(reassemble(c), reassemble(a) * z, 'real-or-complex tensor times complex scalar')
        if ctx.mode == 'float':
            ctx.check(c.yastn_dtype == 'complex128', 'mul:promoted-dtype', c.yastn_dtype)
        return describe(a)
    if v in ('add', 'vdot'):
        tb = _partner_spec(rng, spec, ta, 'overlap', dtype=db)
        b = cat.build(ctx, tb, 'b', config=cfg)
        U = [union_leg(x, y) for x, y in zip(a.get_legs(native=True), b.get_legs(native=True))]
        A, B = reassemble(a, U), reassemble(b, U)
        if v == 'add':
            c = a + b
            ctx.eq(reassemble(c, U), A + B, f'{da} + {db}')
            c2 = a - b
            ctx.eq(reassemble(c2, U), A - B, f'{da} - {db}')
            if ctx.mode == 'float':
                ctx.check(c.yastn_dtype == 'complex128' and c2.yastn_dtype == 'complex128', 'add:promoted-dtype', c.yastn_dtype)
        else:
            ctx.eq([yastn.vdot(a, b)], [(dense.conj(A) * B).sum()], f'vdot({da}, {db})')
        return {'a': describe(a), 'b': describe(b)}
    raise KeyError(v)
