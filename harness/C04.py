"""
C04 -- factorisations reconstruct the input with the promised structure.

The REAL yastn.linalg.svd / qr / eigh (merging, meta, backend loops, sign fixing, reorder, unmerge, moveaxis) run on symbolic
tensors; only the LAPACK leaf calls are replaced by their contracts (symx.backend).  z3 then decides reconstruction, isometry,
ordering / sign obligations for ALL input values and ALL LAPACK outputs admitted by the contract.
"""
from __future__ import annotations
import itertools
import numpy as np
from symx import catalogue as cat
from symx import dense
from symx.dense import reassemble
from symx.wellformed import wellformed, gadd
from .common import rng_of, describe, lazy
from .C01 import hash_seed

PROPERTY = 'C04'
FUNCTIONS = ['yastn.linalg.svd', 'qr', 'eigh (which in SR/LR/SM/LM)', '_meta_svd/_meta_qr/_meta_eigh', '_merge_to_matrix/_meta_merge_to_matrix',
             '_meta_unmerge_matrix/_unmerge', 'backend_np.svd/qr/eigh loops incl. sign fixing + eigs_which', 'moveaxis (Uaxis/Vaxis/Qaxis/Raxis)']
ASSUMPTIONS = ['LAPACK svd/qr/eigh satisfy their documented contracts (stubs); deterministic (same input -> same output)',
               'exact real/complex arithmetic', 'eigh input is Hermitian (constructed as b + b^H)']
OUTSIDE = ['LAPACK itself', 'eig (non-Hermitian): complex sqrt / tolerance tests on symbolic overlaps are not encodable; not claimed',
           'lowrank/arnoldi/propack/randomized/krylov policies', 'fix_signs=True (casts to int64)', 'merged blocks larger than the bound']
BOUNDS = {'quick': {'rank': '2..4', 'merged_block': '<= 3x3 (products of sector dims 1,2)', 'blocks': '<= 6', 'sU/sQ': [1, -1], 'nU': [True, False],
                    'axes': 'all bipartitions and orders (sampled by covering array)', 'lazy': ['plain', 'lazy', 'consumed'], 'fused': ['none', 'hard', 'meta']},
          'thorough': {'rank': '2..4', 'merged_block': '<= 4x4', 'blocks': '<= 8'}}
OPTS = {'quick': {'max_paths': 3000, 'query_timeout_ms': 60000, 'case_deadline_s': 600},
        'thorough': {'max_paths': 20000, 'query_timeout_ms': 120000, 'case_deadline_s': 3000}}
SYMS = ['dense', 'Z2', 'Z3', 'U1', 'Z2xU1', 'U1xU1', 'U1xU1xZ2']
FLOAT_XVAL = {'quick': 1.0, 'thorough': 1.0}      # eig is checked on the float cross-run only


def cases(tier, seed):
    out = []
    reps = 5 if tier == 'quick' else 60
    for kind in ('svd', 'qr', 'eigh'):
        fac = {'sym': SYMS, 'dtype': ['real', 'complex'], 'lazy': ['plain', 'lazy', 'consumed'], 'fused': ['none', 'hard', 'meta'],
               'sU': [1, -1], 'rank': [2, 3, 4]}
        if kind == 'svd':
            fac['nU'] = [True, False]
            fac['n_style'] = ['zero', 'random']
        if kind == 'qr':
            fac['n_style'] = ['zero', 'random']
        if kind == 'eigh':
            fac['which'] = ['SR', 'LR', 'SM', 'LM']
            fac['rank'] = [2, 4]
        for rep in range(reps):
            for i, row in enumerate(cat.covering(fac, seed=seed * 101 + rep * 7 + len(kind), strength=2)):
                c = dict(row)
                c.update(kind=kind, tier=tier, id=f'{kind}-{rep}-{i}', seed=hash_seed(seed, kind, rep, i))
                out.append(c)
    for rep in range(reps):
        for i, row in enumerate(cat.covering({'sym': SYMS, 'lazy': ['plain', 'lazy', 'consumed'], 'fused': ['none', 'hard', 'meta'], 'sU': [1, -1], 'rank': [2, 4]},
                                             seed=seed * 103 + rep, strength=2)):
            c = dict(row)
            c.update(kind='eig', dtype='real', tier=tier, id=f'eig-{rep}-{i}', seed=hash_seed(seed, 'eig', rep, i))
            out.append(c)
    return out


def run(ctx, spec):
    return globals()['k_' + spec['kind']](ctx, spec)


def k_eig(ctx, spec):
    """eig is not stubbed (its post-processing divides by square roots of symbolic complex overlaps and compares with tolerances; bi-orthogonality
    needs distinct eigenvalues): FLOAT cross-run only -- structure of the factors (legs, fusion records, new-leg position and signature),
    reconstruction and bi-orthonormality at 1e-8 on random (non-degenerate) inputs.  Outside the solver-decided claim."""
    import yastn
    if ctx.mode == 'sym':
        ctx.skip('eig: float cross-run only (outside the solver-decided claim)')
    rng = rng_of(spec)
    cfg = cat.make_config(spec['sym'])
    a, axes = _input(ctx, rng, dict(spec, dtype='real'), cfg, hermitian=True)      # square, zero charge (values need not be Hermitian)
    a._data = a._data + np.array([rng.random() for _ in range(a.size)])            # generic non-symmetric values
    a, axes = _prep(ctx, rng, dict(spec, fused=('meta' if spec['fused'] == 'meta' else 'none')), a, axes)    # hard fusion of one side only: effective blocks are not square
    nl = len(axes[0])
    sU = spec['sU']
    U, S, V = yastn.linalg.eig(a, axes=axes, sU=sU)
    ctx.check(U.ndim == nl + 1 and V.ndim == len(axes[1]) + 1 and S.ndim == 2 and S.isdiag, 'eig: ranks of the factors', (U.ndim, S.ndim, V.ndim))
    ctx.check(U.get_legs(-1).s == sU and S.get_signature() == (-sU, sU) and V.get_legs(0).s == -sU, 'eig: signatures of the connecting legs')
    ctx.check(U.get_legs()[:nl] == tuple(a.get_legs(axes[0])) and V.get_legs()[1:] == tuple(a.get_legs(axes[1])), 'eig: outer legs (incl. fusion records) are those of the input')
    rec = U @ S @ V
    ref = a.transpose(axes[0] + axes[1])
    ctx.check(rec.get_legs() == ref.get_legs(), 'eig: U S V has the legs of the (permuted) input')
    ctx.check(bool((rec - ref).norm() < 1e-8 * max(1.0, ref.norm())), 'eig: U S V == a (1e-8)')
    if V.ndim - 1 == nl:       # (with one side meta-fused the logical leg counts differ; reconstruction above already involves both factors)
        VU = yastn.tensordot(V, U, axes=(tuple(range(1, V.ndim)), tuple(range(nl))))
        Id = yastn.eye(config=cfg, legs=VU.get_legs(), isdiag=False)
        ctx.check(bool((VU - Id).norm() < 1e-6 * max(1.0, Id.norm())), 'eig: V U == 1 (bi-orthonormal pairs, 1e-6)')
    return {'a': describe(a)}


def _input(ctx, rng, spec, cfg, hermitian=False):
    """tensor + bipartition (axes) such that merged blocks stay within the size bound"""
    symn = spec['sym']
    rank = spec['rank']
    maxel = 40 if spec['tier'] == 'quick' else 90
    if hermitian:
        half = rank // 2
        legs = [cat.rand_leg(rng, symn, nsect=(1, 2), dims=(1, 2) if half == 1 else (1,)) for _ in range(half)]
        if half == 2 and rng.random() < 0.5:
            legs[0] = cat.rand_leg(rng, symn, nsect=(1, 2), dims=(1, 2))
            legs[1] = cat.rand_leg(rng, symn, nsect=(1,), dims=(1,))
        sig = [rng.choice([1, -1]) for _ in range(half)]
        ts = {'sym': symn, 'fermionic': False, 's': sig + [-x for x in sig], 'legs': legs + legs,
              'n': list(cfg.sym.zero()) if cfg.sym.NSYM else [], 'blocks': None, 'dtype': spec['dtype'], 'isdiag': False}
        if cat.spec_size(ts) > maxel:
            ctx.skip('too large')
        b = cat.build(ctx, ts, 'b', config=cfg)
        perm = tuple(range(half, rank)) + tuple(range(half))
        a = b + b.conj().transpose(perm)
        return a, (tuple(range(half)), tuple(range(half, rank)))
    ts = cat.rand_tensor_spec(rng, symn, rank, dims=(1, 2), nsect=(1, 2) if rank > 2 else (1, 2, 3), max_size=maxel,
                              n_style=spec.get('n_style', 'random'), dtype=spec['dtype'], drop='some' if rng.random() < 0.3 else 'none')
    if ts is None:
        ctx.skip('no structure')
    a = cat.build(ctx, ts, 'a', config=cfg)
    perm = list(range(rank))
    rng.shuffle(perm)
    cut = rng.randint(1, rank - 1)
    return a, (tuple(perm[:cut]), tuple(perm[cut:]))


def _prep(ctx, rng, spec, a, axes):
    """lazy state + optional fusion of some legs inside a side of the bipartition (axes are re-expressed accordingly)."""
    st = spec.get('lazy', 'plain')
    if st != 'plain' and a.ndim >= 2:
        perm = list(range(a.ndim))
        rng.shuffle(perm)
        a2 = a.transpose(tuple(perm))
        if st == 'consumed':
            a2 = a2.consume_transpose()
        inv = {p: i for i, p in enumerate(perm)}
        axes = tuple(tuple(inv[x] for x in grp) for grp in axes)
        a = a2
    fused = spec.get('fused', 'none')
    if fused != 'none':
        # fuse the group that has >= 2 legs (if any) into one leg; bipartition then refers to the fused leg
        side = 0 if len(axes[0]) >= 2 else (1 if len(axes[1]) >= 2 else None)
        if side is not None:
            grp = axes[side]
            others = [x for x in range(a.ndim) if x not in grp]
            order = tuple(others) + (tuple(grp),)
            a = a.fuse_legs(axes=order, mode=fused)
            newpos = {x: i for i, x in enumerate(others)}
            g_other = tuple(newpos[x] for x in axes[1 - side])
            g_fused = (len(others),)
            axes = (g_fused, g_other) if side == 0 else (g_other, g_fused)
    return a, axes


def _merged_block_dims(a, axes):
    """dims of the effective matrix blocks for this bipartition (structure only: a zero-filled copy is hard-fused)"""
    az = a.copy()
    az._data = np.zeros(a.size, dtype=a._data.dtype)
    az = az.fuse_meta_to_hard() if False else az
    g0 = axes[0] if len(axes[0]) > 1 else axes[0][0]
    g1 = axes[1] if len(axes[1]) > 1 else axes[1][0]
    f = az.fuse_legs(axes=(g0, g1), mode='hard')
    return [tuple(D) for D in f.struct.D]


def _mat(X, nrow_axes):
    """dense array -> matrix with the first nrow_axes axes as rows"""
    r = int(np.prod(X.shape[:nrow_axes])) if nrow_axes else 1
    return X.reshape(r, -1)


def _eye_obligation(ctx, M, label):
    n = M.shape[0]
    ctx.eq(M, np.eye(n, dtype=object if M.dtype == object else M.dtype), label)


def _H(M):
    return dense.conj(M.T)


def k_svd(ctx, spec):
    import yastn
    rng = rng_of(spec)
    cfg = cat.make_config(spec['sym'])
    a, axes = _input(ctx, rng, spec, cfg)
    a, axes = _prep(ctx, rng, spec, a, axes)
    sU, nU = spec['sU'], spec['nU']
    nl, nr = len(axes[0]), len(axes[1])
    Uaxis = rng.choice([-1, 0, rng.randint(-(nl + 1), nl), rng.randint(-(nl + 1), nl)])
    Vaxis = rng.choice([0, -1, rng.randint(-(nr + 1), nr), rng.randint(-(nr + 1), nr)])
    U, S, V = yastn.linalg.svd(a, axes=axes, sU=sU, nU=nU, Uaxis=Uaxis, Vaxis=Vaxis)
    symid = cfg.sym.SYM_ID
    zero = cfg.sym.zero()
    wellformed(ctx, U, 'svd:U', expect_n=a.n if nU else zero)
    wellformed(ctx, V, 'svd:V', expect_n=zero if nU else a.n)
    wellformed(ctx, S, 'svd:S', expect_n=zero)
    ctx.check(S.isdiag, 'svd:S-diagonal')
    up, vp = Uaxis % (nl + 1), Vaxis % (nr + 1)
    ctx.check(U.ndim == nl + 1 and V.ndim == nr + 1, 'svd:ranks', (U.ndim, V.ndim))
    ctx.check(U.get_legs(up).s == sU and V.get_legs(vp).s == -sU and S.get_signature() == (-sU, sU), 'svd:new-leg-signature-and-position',
              (U.get_signature(), V.get_signature(), S.get_signature(), up, vp))
    # legs of the factors other than the new one are the (permuted) legs of a
    la = a.get_legs()
    lu = [l for i, l in enumerate(U.get_legs()) if i != up]
    lv = [l for i, l in enumerate(V.get_legs()) if i != vp]
    for got, ax in zip(lu + lv, axes[0] + axes[1]):
        dg, da = dict(zip(got.t, got.D)), dict(zip(la[ax].t, la[ax].D))
        ctx.check(got.s == la[ax].s and all(t in da and da[t] == D for t, D in dg.items()), 'svd:outer-legs', (got, la[ax]))
    # dense reconstruction with NumPy on re-assembled arrays (native legs, meta-fused groups expanded)
    Un = U.moveaxis(up, -1)
    Vn = V.moveaxis(vp, 0)
    lk = Un.get_legs(native=True)[-1]
    ctx.check(dense.legs_equal(lk, S.get_legs(1)) and dense.legs_equal(Vn.get_legs(native=True)[0], S.get_legs(0)), 'svd:connecting-legs-agree')
    at = a.transpose(axes[0] + axes[1])
    nla = len(Un.get_legs(native=True)) - 1
    legs_full = list(Un.get_legs(native=True)[:-1]) + list(Vn.get_legs(native=True)[1:])
    # embed into the legs of a (U/V may miss sectors that are absent from all blocks)
    legs_a = list(at.get_legs(native=True))
    ctx.check(all(dense.leg_sub(x, y) for x, y in zip(legs_full, legs_a)), 'svd:outer-legs-subset')
    Ud = reassemble(Un, legs_a[:nla] + [lk])
    Vd = reassemble(Vn, [lk.conj()] + legs_a[nla:])
    Sd = reassemble(S, [lk.conj(), lk])
    Um, Vm = _mat(Ud, nla), _mat(Vd, 1)
    A = _mat(reassemble(at, legs_a), nla)
    ctx.eq(Um @ Sd @ Vm, A, 'svd:U S V == a')
    k = Sd.shape[0]
    if k:
        _eye_obligation(ctx, _H(Um) @ Um, 'svd:U^H U == I')
        _eye_obligation(ctx, Vm @ _H(Vm), 'svd:V V^H == I')
    # singular values: non-negative, non-increasing inside each sector
    for t in S.get_legs(0).t:
        blk = S[t + t]
        for i in range(len(blk)):
            ctx.prove(blk[i] >= 0, 'svd:S>=0')
            if i + 1 < len(blk):
                ctx.prove(blk[i] >= blk[i + 1], 'svd:S-ordered-within-sector')
    # compute_uv=False gives the same spectrum
    S2 = yastn.linalg.svd(a, axes=axes, sU=sU, nU=nU, compute_uv=False)
    ctx.check(S2.struct == S.struct, 'svdvals:structure')
    ctx.eq(list(S2._data), list(S._data), 'svdvals == S')
    return {'a': describe(a), 'axes': axes, 'sU': sU, 'nU': nU, 'Uaxis': Uaxis, 'Vaxis': Vaxis}


def k_qr(ctx, spec):
    import yastn
    rng = rng_of(spec)
    cfg = cat.make_config(spec['sym'])
    a, axes = _input(ctx, rng, spec, cfg)
    a, axes = _prep(ctx, rng, spec, a, axes)
    sQ = spec['sU']
    nl, nr = len(axes[0]), len(axes[1])
    # sign fixing forks 3 ways per diagonal element of R: bound the number of diagonal elements
    ndiag = sum(min(D) for D in _merged_block_dims(a, axes))
    if ndiag > (5 if spec['tier'] == 'quick' else 7):
        ctx.skip(f'{ndiag} diagonal elements of R: sign-fork bound exceeded')
    Qaxis = rng.choice([-1, 0, rng.randint(-(nl + 1), nl), rng.randint(-(nl + 1), nl)])
    Raxis = rng.choice([0, -1, rng.randint(-(nr + 1), nr), rng.randint(-(nr + 1), nr)])
    Q, R = yastn.linalg.qr(a, axes=axes, sQ=sQ, Qaxis=Qaxis, Raxis=Raxis)
    zero = cfg.sym.zero()
    wellformed(ctx, Q, 'qr:Q', expect_n=a.n)
    wellformed(ctx, R, 'qr:R', expect_n=zero)
    qp, rp = Qaxis % (nl + 1), Raxis % (nr + 1)
    ctx.check(Q.get_legs(qp).s == sQ and R.get_legs(rp).s == -sQ, 'qr:new-leg-signature-and-position', (Q.get_signature(), R.get_signature()))
    Qn, Rn = Q.moveaxis(qp, -1), R.moveaxis(rp, 0)
    lk = Qn.get_legs(native=True)[-1]
    ctx.check(dense.legs_equal(Rn.get_legs(native=True)[0], lk.conj()), 'qr:connecting-legs-agree')
    at = a.transpose(axes[0] + axes[1])
    legs_a = list(at.get_legs(native=True))
    nla = len(Qn.get_legs(native=True)) - 1
    Qd = reassemble(Qn, legs_a[:nla] + [lk])
    Rd = reassemble(Rn, [lk.conj()] + legs_a[nla:])
    Qm, Rm = _mat(Qd, nla), _mat(Rd, 1)
    A = _mat(reassemble(at, legs_a), nla)
    ctx.eq(Qm @ Rm, A, 'qr:Q R == a')
    if Qm.shape[1]:
        _eye_obligation(ctx, _H(Qm) @ Qm, 'qr:Q^H Q == I')
    # R upper-triangular with non-negative diagonal in every (merged) block
    Rf = Rn.fuse_meta_to_hard()
    Rf = Rf.fuse_legs(axes=(0, tuple(range(1, Rf.ndim))), mode='hard') if Rf.ndim > 2 else Rf
    Rf = Rf.consume_transpose()
    for t, D in zip(Rf.struct.t, Rf.struct.D):
        blk = Rf[t]
        for i in range(D[0]):
            for j in range(min(i, D[1])):
                x = blk[i, j]
                ctx.check(type(x) in (int, float) and x == 0 if blk.dtype == object else abs(x) < 1e-12, 'qr:R-upper-triangular', (t, i, j))
            if i < D[1]:
                d = blk[i, i]
                ctx.prove((d.real if hasattr(d, 'real') else d) >= 0, 'qr:diag(R)>=0')
                if spec['dtype'] == 'complex' and ctx.mode == 'float':
                    pass
    return {'a': describe(a), 'axes': axes, 'sQ': sQ, 'Qaxis': Qaxis, 'Raxis': Raxis}


def k_eigh(ctx, spec):
    import yastn
    rng = rng_of(spec)
    cfg = cat.make_config(spec['sym'])
    a, axes = _input(ctx, rng, spec, cfg, hermitian=True)
    # lazy / consumed transposition with an ARBITRARY permutation (interleaved groups, non-involutive permutations), optional fusion of a side
    a, axes = _prep(ctx, rng, dict(spec, fused='none'), a, axes)      # fusing ONE side only makes the two sides' legs differ: not a Hermitian input
    sU, which = spec['sU'], spec['which']
    nl = len(axes[0])
    nfork = 1
    for D in _merged_block_dims(a, axes):
        for j in range(2, min(D) + 1):
            nfork *= j * (2 if which in ('SM', 'LM') else 1)
    if which != 'SR' and nfork > (300 if spec['tier'] == 'quick' else 3000):
        ctx.skip('eigenvalue-ordering fork bound exceeded')
    Uaxis = rng.choice([-1, 0, rng.randint(-(nl + 1), nl), rng.randint(-(nl + 1), nl)])
    S, U = yastn.linalg.eigh(a, axes=axes, sU=sU, Uaxis=Uaxis, which=which)
    zero = cfg.sym.zero()
    wellformed(ctx, U, 'eigh:U', expect_n=zero)
    wellformed(ctx, S, 'eigh:S', expect_n=zero)
    up = Uaxis % (nl + 1)
    ctx.check(U.get_legs(up).s == sU and S.get_signature() == (-sU, sU), 'eigh:new-leg-signature-and-position')
    Un = U.moveaxis(up, -1)
    lk = Un.get_legs(native=True)[-1]
    ctx.check(dense.legs_equal(lk, S.get_legs(1)), 'eigh:connecting-legs-agree')
    ap = a.transpose(axes[0] + axes[1])           # the (suitably permuted) input
    legs_a = list(ap.get_legs(native=True))
    Ud = reassemble(Un, legs_a[:nl] + [lk])
    Um = _mat(Ud, nl)
    Sd = reassemble(S, [lk.conj(), lk])
    A = _mat(reassemble(ap, legs_a), nl)
    ctx.eq(Um @ Sd @ _H(Um), A, 'eigh:U S U^H == a')
    if Um.shape[1]:
        _eye_obligation(ctx, _H(Um) @ Um, 'eigh:U^H U == I')
    for t in S.get_legs(0).t:
        blk = S[t + t]
        for i in range(len(blk) - 1):
            x, y = blk[i], blk[i + 1]
            if which == 'SR':
                ctx.prove(x <= y, 'eigh:order-SR')
            elif which == 'LR':
                ctx.prove(x >= y, 'eigh:order-LR')
            elif which == 'SM':
                ctx.prove(abs(x) <= abs(y), 'eigh:order-SM')
            else:
                ctx.prove(abs(x) >= abs(y), 'eigh:order-LM')
    return {'a': describe(a), 'which': which, 'sU': sU, 'Uaxis': Uaxis}
