"""shared MPS/MPO helpers: symbolic chains built on yastn's own random_mps/random_mpo structure, and an INDEPENDENT dense contraction
(harness re-assembly of every site tensor + numpy tensordot along the chain; never calls to_tensor / Env)."""
from __future__ import annotations
from fractions import Fraction
import numpy as np
from symx import catalogue as cat
from symx import dense
from symx.dense import reassemble
from symx.backend import objarray

FAMILIES = {
    'spin12': ['dense', 'Z2', 'U1'], 'spin1': ['dense', 'Z3', 'U1'], 'spinless': ['Z2', 'U1'], 'spinful': ['Z2', 'U1', 'U1xU1', 'U1xU1xZ2'], 'qdit': ['dense'],
}
FAM_SYM = [(f, s) for f, ss in FAMILIES.items() for s in ss]


def make_ops(family, symn, backend=None):
    import yastn
    kw = {} if backend is None else {'backend': backend}
    if family == 'spin12':
        return yastn.operators.Spin12(sym=symn, **kw)
    if family == 'spin1':
        return yastn.operators.Spin1(sym=symn, **kw)
    if family == 'spinless':
        return yastn.operators.SpinlessFermions(sym=symn, **kw)
    if family == 'spinful':
        return yastn.operators.SpinfulFermions(sym=symn, **kw)
    if family == 'qdit':
        return yastn.operators.Qdit(d=3, **kw)
    raise KeyError(family)


def const_data(ctx, rng, n, cplx=False):
    vals = [Fraction(rng.randint(-4, 4), rng.choice([1, 2, 4])) for _ in range(n)]
    vals = [v if v != 0 else Fraction(1, 2) for v in vals]
    if ctx.mode == 'float':
        return np.array([float(v) for v in vals], dtype=np.complex128 if cplx else np.float64)
    return objarray(vals)


def charges_for(ops, N):
    """admissible total charges of an N-site chain (charge on the first virtual leg)"""
    cfg = ops.config
    if cfg.sym.NSYM == 0:
        return [None]
    sp = ops.space()
    tot = {tuple(cfg.sym.zero())}
    for _ in range(N):
        tot = {cfg.sym.add_charges(a, b) for a in tot for b in sp.t}
    return sorted(tot)


def sym_chain(ctx, rng, ops, N, name, obj='mps', D=2, n=None, dtype='real', symbolic_sites=None, factor=None):
    """MPS / MPO with yastn-generated structure; tensors at `symbolic_sites` (default all) get solver variables, the others small rationals."""
    import yastn
    import yastn.tn.mps as mps
    I = mps.product_mpo(ops.I(), N)
    if obj == 'mps':
        psi = None
        cands = [n] if n is not None else [None]
        if n == 'any':
            cands = charges_for(ops, N)
            rng.shuffle(cands)
        for c in cands:
            try:
                psi = mps.random_mps(I, n=c, D_total=D) if c is not None else mps.random_mps(I, D_total=D)
                break
            except yastn.YastnError:
                continue
        if psi is None:
            ctx.skip('no admissible MPS structure')
    else:
        try:
            psi = mps.random_mpo(I, D_total=D)
        except yastn.YastnError:
            ctx.skip('no admissible MPO structure')
    phi = psi.shallow_copy()
    for k in phi.sweep():
        t = phi[k].copy()
        if symbolic_sites is None or k in symbolic_sites:
            ctx.fill(t, f'{name}{k}', dtype)
        else:
            t._data = const_data(ctx, rng, t.size, dtype == 'complex')
        phi.A[k] = t
    if factor is not None:
        phi.factor = factor
    return phi


def _bond_union(l1, l2c):
    """union of the right leg of site n and the conj of the left leg of site n+1"""
    from .common import union_leg
    return union_leg(l1, l2c)


def dense_chain(psi, phys=None):
    """independent dense array of an MPS (axes: site0, site1, ...) or MPO (axes: ket0, bra0, ket1, bra1, ...), incl. factor; central block absorbed.
    phys: full physical (ket) leg per site to embed into (sectors absent from all blocks of a site tensor are zero)."""
    N = psi.N
    sites = list(range(N))
    tens = [psi.A[n].fuse_meta_to_hard() for n in sites]       # meta-fused virtual legs (multiply(mode='meta')) -> one native leg each
    if psi.pC is None and any(t.get_legs(ax).is_fused() for t in tens for ax in (0, 2)):
        # bond legs that are hard-fused products may disagree in the dimension kept per fused sector on the two sides of a bond
        mismatch = False
        for n in range(N - 1):
            l1, l2 = tens[n].get_legs(2), tens[n + 1].get_legs(0)
            d = dict(zip(l1.t, l1.D))
            mismatch |= any(d.get(t, D) != D for t, D in zip(l2.t, l2.D))
        if mismatch:
            return _dense_chain_fused(psi, tens, phys)
    legs = [list(t.get_legs(native=True)) for t in tens]
    if phys is not None:
        for n in range(N):
            p = phys[n] if isinstance(phys, (list, tuple)) else phys
            legs[n][1] = p
            if psi.nr_phys == 2:
                legs[n][3] = p.conj()
    C = None
    if psi.pC is not None:
        C = psi.A[psi.pC]
    # union legs on every bond (and with the central block if present)
    for n in range(N - 1):
        if C is not None and psi.pC == (n, n + 1):
            lc = list(C.get_legs(native=True))
            u1 = _bond_union(legs[n][2], lc[0].conj())
            legs[n][2], lc[0] = u1, u1.conj()
            u2 = _bond_union(lc[1], legs[n + 1][0].conj())
            lc[1], legs[n + 1][0] = u2, u2.conj()
            Cd = reassemble(C, lc)
        else:
            u = _bond_union(legs[n][2], legs[n + 1][0].conj())
            legs[n][2], legs[n + 1][0] = u, u.conj()
    arrs = [reassemble(t, l) for t, l in zip(tens, legs)]
    nr = psi.nr_phys
    cur = arrs[0]                                # (l, p, r[, p'])
    if nr == 2:
        cur = cur.transpose(0, 1, 3, 2)          # (l, p, p', r)
    for n in range(1, N):
        if C is not None and psi.pC == (n - 1, n):
            cur = np.tensordot(cur, Cd, axes=(cur.ndim - 1, 0))
        nxt = arrs[n] if nr == 1 else arrs[n].transpose(0, 1, 3, 2)
        cur = np.tensordot(cur, nxt, axes=(cur.ndim - 1, 0))
    if C is not None and psi.pC[0] < 0:          # central block attached before the first site
        lc = list(C.get_legs(native=True))
        u = _bond_union(lc[1], legs[0][0].conj())
        Cd0 = reassemble(C, [lc[0], u])
        first = reassemble(tens[0], [u.conj()] + legs[0][1:])
        first = first if nr == 1 else first.transpose(0, 1, 3, 2)
        # redo the chain with the embedded first tensor
        cur = np.tensordot(Cd0, first, axes=(1, 0))
        for n in range(1, N):
            nxt = arrs[n] if nr == 1 else arrs[n].transpose(0, 1, 3, 2)
            cur = np.tensordot(cur, nxt, axes=(cur.ndim - 1, 0))
    if C is not None and psi.pC[1] > N - 1:      # central block attached after the last site
        lc = list(C.get_legs(native=True))
        u = _bond_union(legs[N - 1][2], lc[0].conj())
        CdN = reassemble(C, [u.conj(), lc[1]])
        if u.t != legs[N - 1][2].t or u.D != legs[N - 1][2].D:
            # re-embed the last tensor into the union leg
            ll = list(legs[N - 1]); ll[2] = u
            last = reassemble(tens[N - 1], ll)
            last = last if nr == 1 else last.transpose(0, 1, 3, 2)
            cur = arrs[0] if nr == 1 else arrs[0].transpose(0, 1, 3, 2)
            if N == 1:
                cur = last
            else:
                for n in range(1, N - 1):
                    nxt = arrs[n] if nr == 1 else arrs[n].transpose(0, 1, 3, 2)
                    cur = np.tensordot(cur, nxt, axes=(cur.ndim - 1, 0))
                cur = np.tensordot(cur, last, axes=(cur.ndim - 1, 0))
        cur = np.tensordot(cur, CdN, axes=(cur.ndim - 1, 0))
    # first and last virtual legs have dimension one (zero: a site tensor without blocks, the represented object is zero)
    if cur.shape[0] == 0 or cur.shape[-1] == 0:
        return np.zeros(cur.shape[1:-1], dtype=cur.dtype) if cur.dtype != object else objarray([0] * int(np.prod(cur.shape[1:-1]))).reshape(cur.shape[1:-1])
    assert cur.shape[0] == 1 and cur.shape[-1] == 1, cur.shape
    cur = cur.reshape(cur.shape[1:-1])
    return cur * psi.factor


class OracleLimit(Exception):
    """the harness dense contraction cannot re-assemble this chain (not a statement about yastn)"""


def _dense_chain_fused(psi, tens, phys):
    import yastn
    try:
        return _dense_chain_fused_(psi, tens, phys)
    except yastn.YastnError as e:
        if 'yastn.block()' in str(e):
            raise OracleLimit('bond legs are sums (block) of hard-fused products that kept different dimensions on the two sides') from None
        raise


def _dense_chain_fused_(psi, tens, phys):
    """chains whose virtual legs are hard-fused (H @ a, H @ G): the two sides of a bond may have kept different parts of the fused sectors
    (yastn contracts them through masks), so the virtual legs are unfused into their original components and every component is embedded
    in the union over the bond."""
    N, nr = psi.N, psi.nr_phys
    parts = []
    for t in tens:
        nl = nrr = 1
        while t.get_legs(0).is_fused():
            t = t.unfuse_legs(axes=0)
        nl = t.ndim - 1 - nr          # so far: left comps, p, r (fused?) [, p]
        while t.get_legs(nl + 1).is_fused():
            t = t.unfuse_legs(axes=nl + 1)
        nrr = t.ndim - nl - nr
        parts.append((t, nl, nrr))
    legs = [list(t.get_legs(native=True)) for t, _, _ in parts]
    for n in range(N):
        t, nl, nrr = parts[n]
        if phys is not None:
            p = phys[n] if isinstance(phys, (list, tuple)) else phys
            legs[n][nl] = p
            if nr == 2:
                legs[n][nl + 1 + nrr] = p.conj()
    for n in range(N - 1):
        (_, nl1, nr1), (_, nl2, _) = parts[n], parts[n + 1]
        assert nr1 == nl2, (nr1, nl2)
        for k in range(nr1):
            u = _bond_union(legs[n][nl1 + 1 + k], legs[n + 1][k].conj())
            legs[n][nl1 + 1 + k], legs[n + 1][k] = u, u.conj()
    arrs = []
    for (t, nl, nrr), ll in zip(parts, legs):
        X = reassemble(t, ll)
        sh = X.shape
        L = int(np.prod(sh[:nl])); R = int(np.prod(sh[nl + 1:nl + 1 + nrr]))
        X = X.reshape((L, sh[nl], R) + tuple(sh[nl + 1 + nrr:]))
        arrs.append(X if nr == 1 else X.transpose(0, 1, 3, 2))
    cur = arrs[0]
    for n in range(1, N):
        cur = np.tensordot(cur, arrs[n], axes=(cur.ndim - 1, 0))
    assert cur.shape[0] == 1 and cur.shape[-1] == 1, cur.shape
    return cur.reshape(cur.shape[1:-1]) * psi.factor


def phys_dims(psi):
    return [sum(psi.A[n].get_legs(1).D) for n in range(psi.N)]


def mpo_apply(Hd, vd, N):
    """dense MPO (ket0, bra0, ket1, bra1, ...) applied to dense MPS (site0, ...)"""
    return np.tensordot(Hd, vd, axes=(list(range(1, 2 * N, 2)), list(range(N))))


def mpo_mul(Ad, Bd, N):
    """dense MPO product A.B: axes (ket0, bra0, ...)"""
    r = np.tensordot(Ad, Bd, axes=(list(range(1, 2 * N, 2)), list(range(0, 2 * N, 2))))   # (Aket0..AketN-1, Bbra0..)
    perm = [x for n in range(N) for x in (n, N + n)]
    return r.transpose(perm)
