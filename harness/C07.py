"""
C07 -- MPO construction and measurements realise Jordan-Wigner operators.

Oracle (harness, NumPy on exact rationals / solver terms): an operator o with charge n_o acting at site j of an N-site chain is
    E_j(o) = (x)_{k before j} S_k(n_o)  (x)  o_j  (x)  identities,        S(n_o) = diag_states (-1)^{sum_{c fermionic} n_o[c] t_state[c]}
("before" in the linear order of sites, or in the order given by f_map); a product term is the matrix product of the embedded
operators in the order written.  Dense MPOs / states are re-assembled block by block and contracted with numpy.tensordot
(mpscommon.dense_chain), never through to_tensor / Env.

kinds
  onsite        algebra of the predefined local operators in every symmetry (concrete matrices; exact / 1e-12 evaluation)
  hterm_single  generate_mpo with one Hterm (no SVD in the code path): symbolic amplitude, operator tuples with repeated sites in any
                order, products changing the total charge, f_map, the three ways of passing the identity
  hterm_multi   generate_mpo with 2..3 terms (SVD compression replaced by the LAPACK contract stub, non-binding truncation options)
  latex         Generator: latex2term + _term2Hterm with symbolic parameters -> list of Hterms == the written operator
                (generate_mpo of several terms is covered by hterm_multi; see DESIGN 4/C07)
  measure       measure_1site / measure_2site (every pair i<j, i=j, i>j; dict-valued operators) / measure_nsite on symbolic bra and ket
                of different total charge
  rdm           Tr(rdm(psi, sites) F) == <psi| o0_s0 o1_s1 .. |psi> for sites in any order (F = Jordan-Wigner product on the selected sites)
"""
from __future__ import annotations
import itertools
from fractions import Fraction
import numpy as np
from symx import catalogue as cat
from symx import dense
from symx.dense import reassemble
from symx.wellformed import wellformed
from .common import rng_of
from .C01 import hash_seed
from .mpscommon import sym_chain, dense_chain, charges_for

PROPERTY = 'C07'
FUNCTIONS = ['yastn.tn.mps.generate_mpo', 'yastn.tn.mps.Hterm', 'Generator._term2Hterm', 'latex2term', 'measure_1site', 'measure_2site', 'measure_nsite',
             'rdm', 'Env2.update_env_/update_env_op_/measure', 'sign_canonical_order', 'swap_charges', 'yastn.operators.* (local operators)']
ASSUMPTIONS = ['exact arithmetic', 'LAPACK svd contract (hterm_multi only)', 'local operators with exactly representable entries in the symbolic run (Spin1 sp/sm: float cross-run only)']
OUTSIDE = ['sample(): canonisation by QR + pseudo-random draws (floating point)', 'multi-term generate_mpo with local dimension 4 beyond N = 2', 'generate_mpo default truncation tol=1e-13 as a numerical tolerance (symbolic run uses non-binding options)',
           'chains with d^N > 64 dense entries per index', 'multi-term generate_mpo beyond N=3 / 3 terms']
BOUNDS = {'quick': {'N': '2..5 with d^N <= 64', 'operators per term': '1..4', 'families': 16, 'terms': '1 (exact path) / 2..3 (SVD stub)'},
          'thorough': {'as quick': 'more repetitions'}}
OPTS = {'quick': {'max_paths': 400, 'query_timeout_ms': 60000, 'case_deadline_s': 300}, 'thorough': {'max_paths': 1500, 'query_timeout_ms': 120000, 'case_deadline_s': 900}}
FLOAT_XVAL = {'quick': 0.5, 'thorough': 0.5}
FLOAT_NUMERIC_IS_VIOLATION = True     # mpo_from_latex end-to-end (default SVD tolerance) is compared on the real backend only

FAMS = [('spin12', 'dense'), ('spin12', 'Z2'), ('spin12', 'U1'), ('spin1', 'dense'), ('spin1', 'Z3'), ('spin1', 'U1'), ('spinless', 'Z2'), ('spinless', 'U1'),
        ('spinful', 'Z2'), ('spinful', 'U1'), ('spinful', 'U1xU1'), ('spinful', 'U1xU1xZ2'), ('tJ', 'Z2'), ('tJ', 'U1'), ('tJ', 'U1xU1'), ('tJ', 'U1xU1xZ2')]
FERMI = [i for i, (f, s) in enumerate(FAMS) if f in ('spinless', 'spinful', 'tJ')]


def cases(tier, seed):
    out = []
    reps = 1 if tier == 'quick' else 8
    for i, (f, s) in enumerate(FAMS):
        out.append({'kind': 'onsite', 'fam': i, 'tier': tier, 'id': f'onsite-{f}-{s}', 'seed': 1})
    for rep in range(reps):
        for i, row in enumerate(cat.covering({'fam': list(range(len(FAMS))), 'nops': [1, 2, 3, 4], 'amp': ['real', 'complex', 'one'], 'fmap': [False, True], 'Iform': ['mpo', 'tensor', 'list'],
                                              'pattern': ['random', 'repeat', 'reversed']}, seed=seed * 3 + rep, strength=2)):
            c = dict(row)
            c.update(kind='hterm_single', tier=tier, id=f'single-{rep}-{i}', seed=hash_seed(seed, 'C07', 'single', rep, i))
            out.append(c)
        for i, row in enumerate(cat.covering({'fam': list(range(len(FAMS))), 'M': [2, 3], 'N': [2, 3], 'fmap': [False, True]}, seed=seed * 5 + rep, strength=2)):
            c = dict(row)
            c.update(kind='hterm_multi', tier=tier, id=f'multi-{rep}-{i}', seed=hash_seed(seed, 'C07', 'multi', rep, i))
            out.append(c)
        for i, row in enumerate(cat.covering({'fam': FERMI + [1, 2], 'template': ['hopping', 'hopping_matrix', 'density', 'nested', 'minus', 'map_str', 'op_bracket'], 'N': [2, 3, 4]}, seed=seed * 7 + rep, strength=2)):
            c = dict(row)
            c.update(kind='latex', tier=tier, id=f'latex-{rep}-{i}', seed=hash_seed(seed, 'C07', 'latex', rep, i))
            out.append(c)
        for i, row in enumerate(cat.covering({'fam': list(range(len(FAMS))), 'which': ['1site', '2site', '2site_dict', 'nsite'], 'N': [2, 3, 4], 'dtype': ['real', 'complex']}, seed=seed * 11 + rep, strength=2)):
            c = dict(row)
            c.update(kind='measure', tier=tier, id=f'measure-{rep}-{i}', seed=hash_seed(seed, 'C07', 'measure', rep, i))
            out.append(c)
        for i, row in enumerate(cat.covering({'fam': list(range(len(FAMS))), 'nsites': [1, 2, 3], 'N': [2, 3, 4]}, seed=seed * 13 + rep, strength=2)):
            c = dict(row)
            c.update(kind='rdm', tier=tier, id=f'rdm-{rep}-{i}', seed=hash_seed(seed, 'C07', 'rdm', rep, i))
            out.append(c)
    return out


def run(ctx, spec):
    return globals()['k_' + spec['kind']](ctx, spec)


# ----------------------------------------------------------------------------------------------------------------------

def make_ops(family, symn, backend):
    import yastn
    cls = {'spin12': yastn.operators.Spin12, 'spin1': yastn.operators.Spin1, 'spinless': yastn.operators.SpinlessFermions,
           'spinful': yastn.operators.SpinfulFermions, 'tJ': yastn.operators.SpinfulFermions_tJ}[family]
    return cls(sym=symn, backend=backend)


def _ops_of(spec):
    fam, symn = FAMS[spec['fam']]
    cfg0 = cat.make_config('dense')
    ops = make_ops(fam, symn, cfg0.backend)
    names = {}
    for k, f in ops.to_dict().items():
        try:
            t = f(0)
        except Exception:
            continue
        if t.ndim == 2:
            names[k] = t
    return fam, symn, ops, names


def _fss(cfg):
    f, n = cfg.fermionic, cfg.sym.NSYM
    return (True,) * n if f is True else ((False,) * n if not f else tuple(f))


def _exact(x, sym):
    """numbers met in local operators as exact rationals (symbolic mode) / floats"""
    if not sym:
        return x
    if isinstance(x, (float, np.floating)):
        return Fraction(float(x))
    if isinstance(x, (int, np.integer)):
        return Fraction(int(x))
    return x


class JW:
    """Jordan-Wigner reference on an N-site chain with physical leg ph"""
    def __init__(self, ctx, cfg, ph, N, f_map=None):
        self.ctx, self.cfg, self.ph, self.N = ctx, cfg, ph, N
        self.fss = _fss(cfg)
        self.d = sum(ph.D)
        self.order = list(range(N)) if f_map is None else list(f_map)
        self.sym = ctx.mode == 'sym'
        self.dt = object if self.sym else np.complex128
        self.states = [t for t, D in zip(ph.t, ph.D) for _ in range(D)]

    def local(self, op):
        X = reassemble(op, [self.ph, self.ph.conj()])
        if self.sym:
            Y = np.empty(X.shape, dtype=object)
            for idx in np.ndindex(X.shape):
                Y[idx] = _exact(X[idx], True)
            return Y
        return X.astype(np.complex128)

    def string(self, n_op):
        S = np.zeros((self.d, self.d), dtype=self.dt)
        for i, t in enumerate(self.states):
            e = sum(n_op[c] * t[c] for c in range(len(self.fss)) if self.fss[c]) % 2 if any(self.fss) else 0
            S[i, i] = (Fraction(1 - 2 * e) if self.sym else 1 - 2 * e)
        return S

    def eye(self):
        S = np.zeros((self.d, self.d), dtype=self.dt)
        for i in range(self.d):
            S[i, i] = Fraction(1) if self.sym else 1
        return S

    def embed(self, op, site):
        od = self.local(op)
        odd = any(self.fss) and any(op.n[c] % 2 for c in range(len(self.fss)) if self.fss[c])
        mats = []
        for k in range(self.N):
            if k == site:
                mats.append(od)
            elif odd and self.order[k] < self.order[site]:
                mats.append(self.string(op.n))
            else:
                mats.append(self.eye())
        out = mats[0]
        for m in mats[1:]:
            out = _kron(out, m)
        return out

    def product(self, operators, positions):
        D = self.d ** self.N
        M = None
        for op, pos in zip(operators, positions):
            E = self.embed(op, pos)
            M = E if M is None else _matmul(M, E)
        if M is None:
            M = self.embed_identity()
        return M

    def embed_identity(self):
        out = self.eye()
        for _ in range(self.N - 1):
            out = _kron(out, self.eye())
        return out


def _kron(a, b):
    if a.dtype != object:
        return np.kron(a, b)
    ra, ca = a.shape
    rb, cb = b.shape
    out = np.zeros((ra * rb, ca * cb), dtype=object)
    for i in range(ra):
        for j in range(ca):
            x = a[i, j]
            if isinstance(x, Fraction) and x == 0:
                continue
            out[i * rb:(i + 1) * rb, j * cb:(j + 1) * cb] = x * b
    return out


def _matmul(a, b):
    if a.dtype != object:
        return a @ b
    n, k = a.shape
    out = np.zeros((n, b.shape[1]), dtype=object)
    nzb = [[j for j in range(b.shape[1]) if not (isinstance(b[r, j], (int, Fraction)) and b[r, j] == 0)] for r in range(k)]
    for i in range(n):
        for r in range(k):
            x = a[i, r]
            if isinstance(x, (int, Fraction)) and x == 0:
                continue
            for j in nzb[r]:
                out[i, j] = out[i, j] + x * b[r, j]
    return out


def _mpo_matrix(H, ph, N):
    """dense MPO (ket0, bra0, ket1, bra1, ...) -> matrix rows (ket0..), cols (bra0..)"""
    X = dense_chain(H, ph)
    perm = list(range(0, 2 * N, 2)) + list(range(1, 2 * N, 2))
    X = X.transpose(perm)
    r = int(np.prod(X.shape[:N]))
    return X.reshape(r, -1)


def _irrational(t):
    """operator entries that are not dyadic rationals (Spin1 sp/sm/sx/sy: sqrt(2)): exact symbolic comparison is not meaningful"""
    for x in t._data:
        v = complex(x)
        for y in (v.real, v.imag):
            if y != 0 and abs(y * 64 - round(y * 64)) > 0:
                return True
    return False


def _pick_N(rng, d, lo=2, hi=5, cap=64):
    Ns = [n for n in range(lo, hi + 1) if d ** n <= cap]
    return rng.choice(Ns) if Ns else lo


def _amp(ctx, rng, which, name='x'):
    if which == 'real':
        return ctx.scalar(name, 'real')
    if which == 'complex':
        return complex(Fraction(1, 2), -2) if False else (0.5 - 2j)
    return 1.0


def _num(ctx, a):
    """amplitude as an exact number for the reference"""
    if ctx.mode == 'sym' and isinstance(a, complex):
        from symx.core import SC, rv
        return SC(rv(Fraction(a.real)), rv(Fraction(a.imag)))
    if ctx.mode == 'sym' and isinstance(a, float):
        return Fraction(a)
    return a


# ----------------------------------------------------------------------------------------------------------------------

def k_onsite(ctx, spec):
    """algebra of the predefined local operators (concrete numbers; tolerance 1e-12 only where sqrt(2) enters)"""
    fam, symn, ops, names = _ops_of(spec)
    ph = ops.space()
    d = sum(ph.D)
    def M(t):
        return np.array(reassemble(t, [ph, ph.conj()]), dtype=np.complex128)
    m = {k: M(t) for k, t in names.items()}
    I = np.eye(d)
    def close(a, b, label):
        ctx.check(bool(np.allclose(a, b, rtol=0, atol=1e-12)), f'onsite[{fam},{symn}]: {label}')
    close(m['I'], I, 'I is the identity')
    if fam == 'spin12':
        if 'sp' in m:
            close(m['sp'] @ m['sm'] - m['sm'] @ m['sp'], 2 * m['sz'], '[S+, S-] = 2 Sz')
            close(m['sz'] @ m['sp'] - m['sp'] @ m['sz'], m['sp'], '[Sz, S+] = S+')
            close(m['sm'], m['sp'].conj().T, 'S- = (S+)^dagger')
        close(m['z'], 2 * m['sz'], 'z = 2 Sz')
        if 'sx' in m:
            close(m['sx'] @ m['sy'] - m['sy'] @ m['sx'], 1j * m['sz'], '[Sx, Sy] = i Sz')
            close(m['sp'], m['sx'] + 1j * m['sy'], 'S+ = Sx + i Sy')
            close(m['x'], 2 * m['sx'], 'x = 2 Sx'); close(m['y'], 2 * m['sy'], 'y = 2 Sy')
            close(m['x'] @ m['x'], I, 'x^2 = 1')
    if fam == 'spin1':
        close(m['sp'] @ m['sm'] - m['sm'] @ m['sp'], 2 * m['sz'], '[S+, S-] = 2 Sz')
        close(m['sz'] @ m['sp'] - m['sp'] @ m['sz'], m['sp'], '[Sz, S+] = S+')
        close(m['sm'], m['sp'].conj().T, 'S- = (S+)^dagger')
        close(m['sz'] @ m['sz'] + (m['sp'] @ m['sm'] + m['sm'] @ m['sp']) / 2, 2 * I, 'S^2 = s(s+1) = 2')
        if 'sx' in m:
            close(m['sx'] @ m['sy'] - m['sy'] @ m['sx'], 1j * m['sz'], '[Sx, Sy] = i Sz')
            close(m['sp'], m['sx'] + 1j * m['sy'], 'S+ = Sx + i Sy')
    if fam == 'spinless':
        close(m['c'] @ m['cp'] + m['cp'] @ m['c'], I, '{c, c+} = 1')
        close(m['c'] @ m['c'], 0 * I, 'c^2 = 0')
        close(m['n'], m['cp'] @ m['c'], 'n = c+ c')
        close(m['cp'], m['c'].conj().T, 'c+ = c^dagger')
    if fam in ('spinful', 'tJ'):
        commute = symn == 'U1xU1'      # both U(1) components fermionic separately: different species commute
        sg = -1 if commute else 1
        P = I if fam == 'spinful' else (I - m['nu'] @ m['nd'])
        for s in 'ud':
            close(m['cp' + s], m['c' + s].conj().T, f'c+_{s} = c_{s}^dagger')
            close(m['n' + s], m['cp' + s] @ m['c' + s], f'n_{s} = c+_{s} c_{s}')
            close(m['c' + s] @ m['c' + s], 0 * I, f'c_{s}^2 = 0')
        if fam == 'spinful':
            for s in 'ud':
                close(m['c' + s] @ m['cp' + s] + m['cp' + s] @ m['c' + s], I, f'{{c_{s}, c+_{s}}} = 1')
            close(m['cu'] @ m['cd'] + sg * m['cd'] @ m['cu'], 0 * I, 'c_u c_d = -+ c_d c_u (species commute only for U1xU1)')
            close(m['cu'] @ m['cpd'] + sg * m['cpd'] @ m['cu'], 0 * I, 'c_u c+_d = -+ c+_d c_u')
        else:
            close(m['nu'] @ m['nd'], 0 * I, 'tJ: no double occupancy')
            close(m['h'] + m['nu'] + m['nd'], I, 'tJ: h + n_u + n_d = 1')
            close(m['cu'] @ m['cpu'], m['h'], 'tJ: c_u c+_u = h')
        close(m['Sz'], (m['nu'] - m['nd']) / 2, 'Sz = (n_u - n_d)/2')
        close(m['Sp'], m['cpu'] @ m['cd'], 'S+ = c+_u c_d')
        close(m['Sm'], m['cpd'] @ m['cu'], 'S- = c+_d c_u')
    # charges: block structure of every operator is consistent with its declared charge (harness group law)
    for k, t in names.items():
        wellformed(ctx, t, f'onsite operator {k}', check_dense_zero=False)
    return {'fam': fam, 'sym': symn, 'operators': sorted(names)}


def _draw_term(ctx, rng, names, N, nops, pattern, allow_irr):
    keys = [k for k in names if k != 'I' and (allow_irr or not _irrational(names[k]))]
    if not keys:
        ctx.skip('no exactly representable operators')
    opn = [rng.choice(keys) for _ in range(nops)]
    if pattern == 'repeat' and nops >= 2:
        s = rng.randrange(N)
        pos = [s if rng.random() < 0.6 else rng.randrange(N) for _ in range(nops)]
    elif pattern == 'reversed':
        pos = sorted((rng.randrange(N) for _ in range(nops)), reverse=True)
    else:
        pos = [rng.randrange(N) for _ in range(nops)]
    return opn, pos


def k_hterm_single(ctx, spec):
    import yastn
    import yastn.tn.mps as mps
    rng = rng_of(spec)
    fam, symn, ops, names = _ops_of(spec)
    ph = ops.space()
    N = _pick_N(rng, sum(ph.D))
    opn, pos = _draw_term(ctx, rng, names, N, spec['nops'], spec['pattern'], ctx.mode == 'float')
    f_map = None
    if spec['fmap']:
        f_map = list(range(N))
        rng.shuffle(f_map)
    amp = _amp(ctx, rng, spec['amp'])
    operators = [names[k] for k in opn]
    Iarg, kw = {'mpo': (mps.product_mpo(ops.I(), N), {}), 'tensor': (ops.I(), {'N': N}), 'list': ([ops.I()] * N, {})}[spec['Iform']]
    term = mps.Hterm(amp, tuple(pos), tuple(operators))
    H = mps.generate_mpo(Iarg, [term], f_map=f_map, **kw)
    ctx.check(H.N == N and H.nr_phys == 2, 'generate_mpo returns an N-site MPO')
    for n in range(N):
        wellformed(ctx, H[n], f'generate_mpo site {n}', check_dense_zero=False)
    jw = JW(ctx, ops.config, ph, N, f_map)
    ref = jw.product(operators, pos) * _num(ctx, amp)
    ctx.eq(_mpo_matrix(H, ph, N), ref, f'generate_mpo(Hterm({opn} at {pos}), f_map={f_map}) == amplitude x Jordan-Wigner product')
    # a single position / operator given without a sequence
    if spec['nops'] == 1:
        H1 = mps.generate_mpo(Iarg, [mps.Hterm(amp, pos[0], operators[0])], f_map=f_map, **kw)
        ctx.eq(_mpo_matrix(H1, ph, N), ref, 'Hterm with a bare position and operator')
    # no terms: the identity
    if rng.random() < 0.2:
        H0 = mps.generate_mpo(Iarg, [], **kw)
        ctx.eq(_mpo_matrix(H0, ph, N), jw.embed_identity(), 'generate_mpo without terms == identity')
    return {'fam': fam, 'sym': symn, 'N': N, 'ops': opn, 'pos': pos, 'f_map': f_map}


def _same_charge_terms(ctx, rng, cfg, names, N, M, allow_irr):
    """M terms whose operator charges add up to the same total (generate_mpo requirement)"""
    keys = [k for k in names if k != 'I' and (allow_irr or not _irrational(names[k]))]
    if not keys:
        ctx.skip('no exactly representable operators')
    sym = cfg.sym
    def tot(opn):
        return tuple(sym.add_charges(*[names[k].n for k in opn])) if opn else tuple(sym.zero())
    for _ in range(200):
        first = [rng.choice(keys) for _ in range(rng.choice([1, 2, 2, 3]))]
        target = tot(first)
        terms = [first]
        for _ in range(400):
            if len(terms) == M:
                break
            cand = [rng.choice(keys) for _ in range(rng.choice([1, 2, 2, 3]))]
            if tot(cand) == target:
                terms.append(cand)
        if len(terms) == M:
            return [(opn, [rng.randrange(N) for _ in opn]) for opn in terms]
    ctx.skip('no terms of equal charge found')


def k_hterm_multi(ctx, spec):
    import yastn.tn.mps as mps
    rng = rng_of(spec)
    fam, symn, ops, names = _ops_of(spec)
    ph = ops.space()
    N, M = spec['N'], spec['M']
    if sum(ph.D) ** N > 64 or (sum(ph.D) >= 4 and N > 2):
        N = 2          # local dimension 4: two chained compressing SVDs over the larger operator basis exceed the path budget on some seeds
    terms = _same_charge_terms(ctx, rng, ops.config, names, N, M, ctx.mode == 'float')
    f_map = None
    if spec['fmap']:
        f_map = list(range(N))
        rng.shuffle(f_map)
    amps = [Fraction(rng.choice([-3, -1, 1, 2, 3]), rng.choice([1, 2])) for _ in terms]
    amps = [float(a) for a in amps]
    hts = [mps.Hterm(a, tuple(pos), tuple(names[k] for k in opn)) for a, (opn, pos) in zip(amps, terms)]
    I = mps.product_mpo(ops.I(), N)
    # symbolic run: non-binding truncation options (the default tol=1e-13 is a floating-point tolerance); float run: the default
    H = mps.generate_mpo(I, hts, f_map=f_map, opts_svd={'D_total': 4096} if ctx.mode == 'sym' else None)
    jw = JW(ctx, ops.config, ph, N, f_map)
    ref = None
    for a, (opn, pos) in zip(amps, terms):
        T = jw.product([names[k] for k in opn], pos) * _num(ctx, a)
        ref = T if ref is None else ref + T
    ctx.eq(_mpo_matrix(H, ph, N), ref, f'generate_mpo({len(terms)} terms) == sum of amplitude x Jordan-Wigner products')
    return {'fam': fam, 'sym': symn, 'N': N, 'terms': terms, 'f_map': f_map}


def k_latex(ctx, spec):
    """Generator: parsing + translation to Hterms with symbolic parameters; the list of Hterms must sum to the written operator"""
    import yastn.tn.mps as mps
    from yastn.tn.mps._latex2term import latex2term
    rng = rng_of(spec)
    fam, symn, ops, names = _ops_of(spec)
    ph = ops.space()
    N = spec['N']
    if sum(ph.D) ** N > 64:
        N = 2
    # creation / annihilation-like pair of the family
    if fam == 'spinless':
        A, B, Dn = 'cp', 'c', 'n'
    elif fam in ('spinful', 'tJ'):
        s = rng.choice('ud')
        A, B, Dn = 'cp' + s, 'c' + s, 'n' + s
    else:
        A, B, Dn = 'sp', 'sm', 'sz'
    if any(k not in names for k in (A, B, Dn)):
        ctx.skip('operators missing')
    t = ctx.scalar('t', 'real')
    mu = ctx.scalar('mu', 'real')
    jw = JW(ctx, ops.config, ph, N)
    def E(k, j):
        return jw.embed(names[k], j)
    NN = [(i, i + 1) for i in range(N - 1)]
    template = spec['template']
    emap = None
    if template == 'hopping':
        s = rf"\sum_{{j,k \in NN}} t ({A}_{{j}} {B}_{{k}}+{A}_{{k}} {B}_{{j}}) + \sum_{{i \in sites}} mu {A}_{{i}} {B}_{{i}}"
        par = {'t': t, 'mu': mu, 'sites': list(range(N)), 'NN': NN}
        ref = sum((_matmul(E(A, j), E(B, k)) + _matmul(E(A, k), E(B, j))) * t for j, k in NN) + sum(_matmul(E(A, i), E(B, i)) * mu for i in range(N))
    elif template == 'hopping_matrix':
        J = np.empty((N, N), dtype=object)
        for i in range(N):
            for j in range(N):
                J[i, j] = ctx.scalar(f'J{i}{j}', 'real')
        allp = [(i, j) for i in range(N - 1) for j in range(i + 1, N)]
        s = rf"\sum_{{j,k \in NN}} J_{{j,k}} ({A}_{{j}} {B}_{{k}}+{A}_{{k}} {B}_{{j}}) + \sum_{{i \in sites}} J_{{i,i}} {Dn}_{{i}}"
        par = {'J': J, 'sites': list(range(N)), 'NN': allp}
        ref = sum((_matmul(E(A, j), E(B, k)) + _matmul(E(A, k), E(B, j))) * J[j, k] for j, k in allp) + sum(E(Dn, i) * J[i, i] for i in range(N))
    elif template == 'density':
        s = rf"\sum_{{j \in sites}} mu {Dn}_{{j}} + \sum_{{a,b \in ends}} t {Dn}_{{a}} {Dn}_{{b}}"
        par = {'t': t, 'mu': mu, 'sites': list(range(N)), 'ends': [(0, N - 1)]}
        ref = sum(E(Dn, i) * mu for i in range(N)) + _matmul(E(Dn, 0), E(Dn, N - 1)) * t
    elif template == 'nested':
        s = rf"\sum_{{j \in sites}} \sum_{{k \in sites}} t {Dn}_{{j}} {Dn}_{{k}} + \sum_{{a,b \in ends}} 2 mu {A}_{{a}} {B}_{{b}}"
        par = {'t': t, 'mu': mu, 'sites': list(range(N)), 'ends': [(0, 1)]}
        ref = sum(_matmul(E(Dn, j), E(Dn, k)) * t for j in range(N) for k in range(N)) + _matmul(E(A, 0), E(B, 1)) * (2 * mu)
    elif template == 'minus':
        s = rf"\sum_{{j,k \in NN}} (minus t) {A}_{{j}} {B}_{{k}} + \sum_{{j,k \in NN}} (1j) * mu {B}_{{k}} {A}_{{j}}"
        par = {'t': t, 'mu': mu, 'NN': NN}
        onej = 1j if ctx.mode == 'float' else _num(ctx, 1j)
        ref = sum(_matmul(E(A, j), E(B, k)) * (-t) for j, k in NN) + sum(_matmul(E(B, k), E(A, j)) * (mu * onej) for j, k in NN)
    elif template == 'op_bracket':
        # an operator factor multiplying a (longer) bracket that contains operators, on either side, incl. same-site factors: the written order
        # of the factors is the operator order
        a_, b_, c_ = 0, min(1, N - 1), N - 1
        s = rf"\sum_{{ja,jb,jc \in trip}} t {A}_{{ja}} ({B}_{{jb}} + {B}_{{jc}}) + \sum_{{ja,jb,jc \in trip}} mu ({A}_{{jb}} + {A}_{{jc}} + {A}_{{ja}}) {B}_{{ja}} + \sum_{{ja,jb,jc \in trip}} {B}_{{jb}} ({A}_{{jb}} + {A}_{{jc}} + {A}_{{ja}})"
        par = {'t': t, 'mu': mu, 'trip': [(a_, b_, c_)]}
        ref = (_matmul(E(A, a_), E(B, b_)) + _matmul(E(A, a_), E(B, c_))) * t \
            + (_matmul(E(A, b_), E(B, a_)) + _matmul(E(A, c_), E(B, a_)) + _matmul(E(A, a_), E(B, a_))) * mu \
            + (_matmul(E(B, b_), E(A, b_)) + _matmul(E(B, b_), E(A, c_)) + _matmul(E(B, b_), E(A, a_)))
    else:   # custom site labels (strings / tuples) through map
        labels = [str(i) for i in range(N)] if rng.random() < 0.5 else [(str(i), 'A') for i in range(N)]
        emap = {l: i for i, l in enumerate(labels)}
        if rng.random() < 0.5:
            perm = list(range(N)); rng.shuffle(perm)
            emap = {l: perm[i] for i, l in enumerate(labels)}
        s = rf"\sum_{{j,k \in NN}} t ({A}_{{j}} {B}_{{k}}+{A}_{{k}} {B}_{{j}}) + \sum_{{i \in sites}} mu {Dn}_{{i}}"
        par = {'t': t, 'mu': mu, 'sites': labels, 'NN': [(labels[i], labels[i + 1]) for i in range(N - 1)]}
        ref = sum((_matmul(E(A, emap[labels[j]]), E(B, emap[labels[k]])) + _matmul(E(A, emap[labels[k]]), E(B, emap[labels[j]]))) * t for j, k in NN) \
            + sum(E(Dn, emap[l]) * mu for l in labels)
    gen = mps.Generator(N, ops, map=emap)
    parameters = {**gen.parameters, **par}
    c2 = latex2term(s, parameters)
    hts = gen._term2Hterm(c2, ops.to_dict(), parameters)
    got = None
    for h in hts:
        T = jw.product(list(h.operators), list(h.positions)) * _num(ctx, h.amplitude)
        got = T if got is None else got + T
    ctx.eq(got, ref, f'Generator latex "{template}": sum of the produced Hterms == the written operator')
    if ctx.mode == 'float':
        H = gen.mpo_from_latex(s, par)
        ctx.eq(_mpo_matrix(H, ph, N), ref, f'Generator.mpo_from_latex "{template}" == the written operator')
    return {'fam': fam, 'sym': symn, 'N': N, 'template': template, 'terms': len(hts)}


def _states(ctx, rng, ops, N, op_charge, dtype, soft=False, tag=''):
    """ket of an admissible charge and bra of charge ket + op_charge (skip when there is none)"""
    cfg = ops.config
    d = sum(ops.space().D)
    symb = None if d ** N <= 16 else set(rng.sample(range(N), 2))
    if cfg.sym.NSYM == 0:
        ket = sym_chain(ctx, rng, ops, N, tag + 'k', n=None, dtype=dtype, symbolic_sites=symb)
        bra = sym_chain(ctx, rng, ops, N, tag + 'b', n=None, dtype=dtype, symbolic_sites=symb)
        return bra, ket
    cands = charges_for(ops, N)
    rng.shuffle(cands)
    import yastn
    for nk in cands:
        nb = tuple(cfg.sym.add_charges(nk, op_charge))
        if nb not in cands:
            continue
        try:
            ket = sym_chain(ctx, rng, ops, N, tag + 'k', n=nk, dtype=dtype, symbolic_sites=symb)
            bra = sym_chain(ctx, rng, ops, N, tag + 'b', n=nb, dtype=dtype, symbolic_sites=symb)
        except yastn.YastnError:
            continue
        return bra, ket
    if soft:
        raise _NoStates()
    ctx.skip('no admissible pair of charges')


def _expect(B, M, K):
    return (dense.conj(B).reshape(-1) * (_matmul(M, K.reshape(-1, 1)).reshape(-1) if M.dtype == object else (M @ K.reshape(-1)))).sum()


class _NoStates(Exception):
    pass


def _two_site_case(ctx, rng, ops, names, cfg, ph, N, jw, which, o, p, spec, fam, symn, tag=''):
    import yastn.tn.mps as mps
    O, P = names[o], names[p]
    bra, ket = _states(ctx, rng, ops, N, tuple(cfg.sym.add_charges(O.n, P.n)), spec['dtype'], soft=True, tag=tag)
    Bd, Kd = dense_chain(bra, ph), dense_chain(ket, ph)
    if which == '2site':
        res = mps.measure_2site(bra, O, P, ket, bonds='a')
        pairs = [(i, j) for i in range(N) for j in range(N)]
        ctx.check(sorted(res) == sorted(pairs), 'measure_2site(bonds="a"): all pairs', sorted(res))
    else:
        sO = sorted(rng.sample(range(N), rng.randint(1, N)))
        sP = sorted(rng.sample(range(N), rng.randint(1, N)))
        res = mps.measure_2site(bra, {k: O for k in sO}, {k: P for k in sP}, ket, bonds='a')
        pairs = [(i, j) for i in sO for j in sP]
        ctx.check(sorted(res) == sorted(pairs), 'measure_2site(dict operators): pairs restricted to the given sites', (sorted(res), sorted(pairs)))
    for (i, j) in pairs:
        ref = _expect(Bd, _matmul(jw.embed(O, i), jw.embed(P, j)), Kd)
        ctx.eq([res[(i, j)]], [ref], f'measure_2site({o}_{i} {p}_{j})')
    i, j = rng.randrange(N), rng.randrange(N)
    if which == '2site':
        ctx.eq([mps.measure_2site(bra, O, P, ket, bonds=(i, j))], [_expect(Bd, _matmul(jw.embed(O, i), jw.embed(P, j)), Kd)], f'measure_2site(bonds=({i},{j})) returns the number')
        for b in ('<', '=', '>', 'r1', 'r-1', 'r1p'):
            r = mps.measure_2site(bra, O, P, ket, bonds=b)
            exp = {'<': [(a, c) for a in range(N) for c in range(a + 1, N)], '=': [(a, a) for a in range(N)], '>': [(a, c) for a in range(N) for c in range(a)],
                   'r1': [(a, a + 1) for a in range(N - 1)], 'r-1': [(a, a - 1) for a in range(1, N)], 'r1p': sorted(set((a, (a + 1) % N) for a in range(N)))}[b]
            ctx.check(sorted(r) == sorted(exp), f'measure_2site(bonds="{b}"): pair set', (sorted(r), exp))
            for pr in exp:
                ctx.eq([r[pr]], [res[pr]], f'measure_2site(bonds="{b}") consistent with bonds="a"')
    return {'fam': fam, 'sym': symn, 'N': N, 'ops': (o, p)}


def k_measure(ctx, spec):
    import yastn.tn.mps as mps
    rng = rng_of(spec)
    fam, symn, ops, names = _ops_of(spec)
    ph = ops.space()
    N = spec['N']
    while sum(ph.D) ** N > 64:
        N -= 1
    keys = [k for k in names if k != 'I' and (ctx.mode == 'float' or not _irrational(names[k]))]
    if not keys:
        ctx.skip('no exactly representable operators')
    cfg = ops.config
    jw = JW(ctx, cfg, ph, N)
    which = spec['which']
    if which == '1site':
        o = rng.choice(keys)
        O = names[o]
        bra, ket = _states(ctx, rng, ops, N, O.n, spec['dtype'])
        Bd, Kd = dense_chain(bra, ph), dense_chain(ket, ph)
        res = mps.measure_1site(bra, O, ket)
        ctx.check(sorted(res) == list(range(N)), 'measure_1site: all sites')
        for n in range(N):
            ctx.eq([res[n]], [_expect(Bd, jw.embed(O, n), Kd)], f'measure_1site({o}) at site {n}')
        n0 = rng.randrange(N)
        ctx.eq([mps.measure_1site(bra, O, ket, sites=n0)], [_expect(Bd, jw.embed(O, n0), Kd)], 'measure_1site(sites=int) returns the number')
        r2 = mps.measure_1site(bra, {n0: O}, ket)
        ctx.check(list(r2) == [n0], 'measure_1site(dict): only the given sites')
        ctx.eq([r2[n0]], [_expect(Bd, jw.embed(O, n0), Kd)], 'measure_1site(dict)')
        return {'fam': fam, 'sym': symn, 'N': N, 'op': o}
    if which in ('2site', '2site_dict'):
        fss = _fss(cfg)
        odd = [k for k in keys if any(fss) and any(names[k].n[c] % 2 for c in range(len(fss)) if fss[c])]
        charged_even = [k for k in keys if k not in odd and cfg.sym.NSYM and tuple(names[k].n) != tuple(cfg.sym.zero())]
        trials = [(rng.choice(keys), rng.choice(keys))]
        if odd:
            trials.append((rng.choice(odd), rng.choice(odd)))                 # two odd operators: the exchange sign of the i > j branch
            same = [k for k in odd if k != trials[-1][0] and tuple(names[k].n) == tuple(cfg.sym.add_charges(names[trials[-1][0]].n, new_signature=-1))]
            if same:
                trials.append((trials[-1][0], rng.choice(same)))              # c / c+ of the same species
        if odd and charged_even:
            trials.append((rng.choice(charged_even), rng.choice(odd)))        # e.g. S+ with c: even under the statistics, non-zero charge
        out = None
        done = 0
        for it, (o, p) in enumerate(trials):
            try:
                out = _two_site_case(ctx, rng, ops, names, cfg, ph, N, jw, which, o, p, spec, fam, symn, tag=f't{it}')
                done += 1
            except _NoStates:
                continue
        if not done:
            ctx.skip('no admissible pair of charges')
        return out
    # nsite: a random tuple, and (fermions) tuples in which a site repeats NON-adjacently with odd operators in between: (a, b, a), (a, b, a, b)
    fss = _fss(cfg)
    odd = [k_ for k_ in keys if any(fss) and any(names[k_].n[c] % 2 for c in range(len(fss)) if fss[c])]
    trials = []
    k = rng.choice([1, 2, 3, 4])
    trials.append(([rng.choice(keys) for _ in range(k)], [rng.randrange(N) for _ in range(k)]))
    if odd and N >= 2:
        a_, b_ = rng.sample(range(N), 2)
        trials.append(([rng.choice(odd) for _ in range(3)], [a_, b_, a_]))
        trials.append(([rng.choice(odd) for _ in range(4)], [a_, b_, a_, b_]))
        trials.append(([rng.choice(odd), rng.choice(keys), rng.choice(odd), rng.choice(odd)], [a_, b_, b_, a_]))
    done = 0
    for it, (opn, pos) in enumerate(trials):
        operators = [names[x] for x in opn]
        tot = tuple(cfg.sym.add_charges(*[x.n for x in operators])) if cfg.sym.NSYM else ()
        try:
            bra, ket = _states(ctx, rng, ops, N, tot, spec['dtype'], soft=True, tag=f'n{it}')
        except _NoStates:
            continue
        done += 1
        Bd, Kd = dense_chain(bra, ph), dense_chain(ket, ph)
        res = mps.measure_nsite(bra, *operators, ket=ket, sites=pos)
        ctx.eq([res], [_expect(Bd, jw.product(operators, pos), Kd)], f'measure_nsite({opn} at {pos})')
        # the same through generate_mpo + measure_mpo
        H = mps.generate_mpo(mps.product_mpo(ops.I(), N), [mps.Hterm(1.0, tuple(pos), tuple(operators))])
        if all(H[n].size > 0 for n in range(N)):      # (an identically vanishing product gives an MPO without blocks, which Env cannot take)
            ctx.eq([mps.measure_mpo(bra, H, ket)], [res], 'measure_mpo(generate_mpo(term)) == measure_nsite')
    if not done:
        ctx.skip('no admissible pair of charges')
    return {'fam': fam, 'sym': symn, 'N': N, 'ops': opn, 'pos': pos}


def k_rdm(ctx, spec):
    import yastn.tn.mps as mps
    rng = rng_of(spec)
    fam, symn, ops, names = _ops_of(spec)
    ph = ops.space()
    N = spec['N']
    while sum(ph.D) ** N > 64:
        N -= 1
    ns = min(spec['nsites'], N)
    if sum(ph.D) ** (2 * ns) > 4096:
        ns = 1 if sum(ph.D) > 2 else 2
    keys = [k for k in names if (ctx.mode == 'float' or not _irrational(names[k]))]
    cfg = ops.config
    sites = rng.sample(range(N), ns)
    psi = sym_chain(ctx, rng, ops, N, 'p', n='any' if cfg.sym.NSYM else None, dtype='real',
                    symbolic_sites=None if sum(ph.D) ** N <= 16 else set(rng.sample(range(N), 2)))
    Pd = dense_chain(psi, ph)
    rho = mps.rdm(psi, *sites)
    ctx.check(rho.ndim == 2 * ns, 'rdm: two legs per selected site', rho.ndim)
    Rd = reassemble(rho, [l for _ in range(ns) for l in (ph, ph.conj())])
    jwN = JW(ctx, cfg, ph, N)
    jwS = JW(ctx, cfg, ph, ns)
    d = sum(ph.D)
    tried = 0
    for _ in range(40):
        opn = [rng.choice(keys) for _ in range(ns)]
        operators = [names[k] for k in opn]
        tot = tuple(cfg.sym.add_charges(*[x.n for x in operators])) if cfg.sym.NSYM else ()
        if cfg.sym.NSYM and tot != tuple(cfg.sym.zero()):
            continue
        tried += 1
        ref = _expect(Pd, jwN.product(operators, sites), Pd)
        F = jwS.product(operators, list(range(ns)))                 # rows (out0, out1, ..), cols (in0, in1, ..)
        Ft = F.reshape((d,) * (2 * ns))                            # (out0.., in0..)
        # Tr(rho F): rho legs (a0, b0, a1, b1, ..) contracted with F[b0, a0, b1, a1, ..]  (einsum 'abcd,badc')
        acc = 0
        for idx in itertools.product(range(d), repeat=2 * ns):
            a = idx[0::2]; b = idx[1::2]
            r = Rd[idx]
            if isinstance(r, (int, float)) and r == 0:
                continue
            f = Ft[tuple(b) + tuple(a)]
            if isinstance(f, (int, Fraction)) and f == 0:
                continue
            acc = acc + r * f
        ctx.eq([acc], [ref], f'Tr(rdm(psi, {sites}) F({opn})) == <psi| product |psi>')
        if tried >= 3:
            break
    return {'fam': fam, 'sym': symn, 'N': N, 'sites': sites}
