"""
C16 -- metadata caches are transparent.

Tensor families are built to COLLIDE: identical struct / slices / block layout, but different symmetry group (Z2 / U1 / Z3 with
charges {0,1}; U1xU1 / Z2xU1), different fermionic flags, different fusion histories.  Bounded histories (interleavings of
operations on different families) are run cold, warm, with maxsize in {0, 1, default} and with clear_cache() at every position;
every result must coincide with the isolated cold-cache baseline: metadata deeply equal, data equal for all values (same
solver variables => z3 equality).  Additionally every cached function is shadow-checked on every call: the value returned from
the cache must equal a fresh call of __wrapped__ and the digest taken when the entry was first seen.
The history axis is bounded enumeration; the solver decides value equality only (stated in DESIGN).
"""
from __future__ import annotations
import itertools
import random
import numpy as np
from symx import catalogue as cat
from .common import rng_of
from .C01 import hash_seed

PROPERTY = 'C16'
FUNCTIONS = ['the 18 lru_cache tables of yastn.tensor._control_lru', 'set_cache_maxsize', 'clear_cache', 'get_cache_info']
ASSUMPTIONS = ['exact arithmetic', 'histories limited to the bound']
OUTSIDE = ['histories longer than 8 operations', 'concurrent use of the caches from several threads']
BOUNDS = {'quick': {'families': 'Z2/U1/Z3 x fermionic False/True; U1xU1/Z2xU1 x fermionic False/(T,F)/(F,T); two fusion histories each',
                    'history length': '<= 8 ops (10 op types), 6 random interleavings + sorted + reversed per case',
                    'cache regimes': ['warm', 'maxsize=0', 'maxsize=1', 'clear at every position k']},
          'thorough': {'history length': '<= 12', 'interleavings': 30}}
OPTS = {'quick': {'max_paths': 50}, 'thorough': {'max_paths': 50}}
YASTNERROR_IS_SKIP = False

FAM1 = [('Z2', False), ('U1', False), ('Z3', False), ('Z2', True), ('U1', True)]
FAM2 = [('U1xU1', False), ('Z2xU1', False), ('U1xU1', (True, False)), ('U1xU1', (False, True)), ('Z2xU1', True)]
OPS = ['fuse02', 'fuse01_unfuse', 'dot', 'dot_nf', 'dot_f2m', 'trace', 'swap', 'add', 'vdot', 'mask', 'broadcast', 'fuse_dot_mismatch', 'fuse_dot_disjoint', 'svd', 'ncon', 'transpose_fuse']


def cases(tier, seed):
    out = []
    n = 16 if tier == 'quick' else 1500
    for i in range(n):
        for fam in ('one', 'two'):
            out.append({'id': f'hist-{fam}-{i}', 'kind': 'history', 'fam': fam, 'tier': tier, 'seed': hash_seed(seed, 'C16', fam, i)})
    return out


def run(ctx, spec):
    return k_history(ctx, spec)


def _fam_tensors(ctx, fam, idx, tag):
    """tensors with a block layout valid in every family member => identical struct/slices across symmetries"""
    import yastn
    symn, ferm = fam
    cfg = cat.make_config(symn, fermionic=ferm)
    nsym = cfg.sym.NSYM
    if nsym == 1:
        blocks = [(0, 0, 0), (0, 1, 1), (1, 0, 1)]
        D = {0: (1, 2, 2), 1: (2, 1, 1)}        # charge -> dims on legs 0,1,2
        ch = lambda b: tuple((x,) for x in b)
    else:
        blocks = [((0, 0), (0, 0), (0, 0)), ((0, 0), (0, 1), (0, 1)), ((1, 0), (0, 0), (1, 0)), ((0, 1), (1, 0), (1, 1))]
        Dm = {(0, 0): (1, 2, 1), (0, 1): (2, 1, 2), (1, 0): (1, 1, 1), (1, 1): (1, 1, 2)}
        ch = lambda b: b
    def make(name, s, blks):
        t = yastn.Tensor(config=cfg, s=s, n=cfg.sym.zero())
        for b in blks:
            c = ch(b)
            if nsym == 1:
                Ds = tuple(D[x[0]][i] for i, x in enumerate(c))
            else:
                Ds = tuple(Dm[x][i] for i, x in enumerate(c))
            t.set_block(ts=sum(c, ()), Ds=Ds, val='zeros')
        return ctx.fill(t, f'{name}{idx}', 'real')
    a = make(f'{tag}a', (1, 1, -1), blocks)
    b = make(f'{tag}b', (-1, -1, 1), blocks)
    c = make(f'{tag}c', (1, 1, -1), blocks[:-1])
    d = make(f'{tag}d', (1, 1, -1), blocks[:1])
    # e, f: the hard-fused leg (0,1) has a common sector whose constituents are DISJOINT (empty intersection of the fusion histories)
    if nsym == 1:
        e = make(f'{tag}e', (1, 1, -1), [blocks[0], blocks[1]])
        f = make(f'{tag}f', (1, 1, -1), [blocks[0], blocks[2]])
    else:
        e = make(f'{tag}e', (1, 1, -1), [blocks[0], blocks[1]])
        f = make(f'{tag}f', (1, 1, -1), [blocks[0], ((0, 1), (0, 0), (0, 1))])
    return cfg, a, b, c, d, e, f


class Obs:
    def __init__(self, kind, **kw):
        self.kind = kind
        self.__dict__.update(kw)


def _observe(r):
    if hasattr(r, 'struct') and hasattr(r, '_data'):
        return Obs('T', meta=(r.struct, r.slices, tuple(r.hfs), tuple(r.mfs), tuple(r.trans), r.config.sym.SYM_ID, r.config.fermionic), data=list(r._data))
    if isinstance(r, (tuple, list)) and not hasattr(r, '_fields'):
        return Obs('L', items=[_observe(x) for x in r])
    return Obs('V', v=r)


def _apply(op, cfg, a, b, c, d, e=None, f=None):
    import yastn
    if op == 'fuse02':
        return a.fuse_legs(axes=((0, 2), 1), mode='hard')
    if op == 'fuse01_unfuse':
        f = a.fuse_legs(axes=((0, 1), 2), mode='hard')
        return f, f.unfuse_legs(axes=0)
    if op == 'transpose_fuse':
        return a.transpose((2, 0, 1)).fuse_legs(axes=(0, (2, 1)), mode='hard').fuse_legs(axes=((0, 1),), mode='hard')
    if op in ('dot', 'dot_nf', 'dot_f2m'):
        pol = {'dot': 'fuse_contracted', 'dot_nf': 'no_fusion', 'dot_f2m': 'fuse_to_matrix'}[op]
        c2 = cfg._replace(tensordot_policy=pol)
        return yastn.tensordot(a._replace(config=c2), b._replace(config=c2), axes=((0, 2), (0, 2)))
    if op == 'trace':
        return yastn.tensordot(a, b, axes=(1, 1)).trace(axes=(0, 2))
    if op == 'swap':
        return a.swap_gate(axes=(0, 2)), a.swap_gate(axes=((0, 1), 2)), a.swap_gate(axes=1, charge=a.get_legs(1).t[-1])
    if op == 'add':
        return a + c, c - a
    if op == 'vdot':
        return yastn.vdot(a, c), yastn.vdot(b, b)
    if op == 'mask':
        leg = a.get_legs(0)
        m = yastn.Tensor(config=cfg, s=(-leg.s, leg.s), isdiag=True)
        for t, D in zip(leg.t, leg.D):
            m.set_block(ts=t, Ds=D, val='zeros')
        m._data = np.array([(i % 2 == 0) for i in range(m.size)], dtype=bool)
        return m.apply_mask(a, axes=0)
    if op == 'broadcast':
        leg = a.get_legs(2)
        d = yastn.Tensor(config=cfg, s=(-leg.s, leg.s), isdiag=True)
        for t, D in zip(leg.t, leg.D):
            d.set_block(ts=t, Ds=D, val='zeros')
        d._data = a._data[:d.size].copy()
        return d.broadcast(a, axes=2)
    if op == 'fuse_dot_mismatch':
        fa = a.fuse_legs(axes=((0, 1), 2), mode='hard')
        fc = c.conj().fuse_legs(axes=((0, 1), 2), mode='hard')
        fd = d.conj().fuse_legs(axes=((0, 1), 2), mode='hard')
        return (yastn.tensordot(fa, fc, axes=(0, 0)), yastn.vdot(fc.conj(), fa), fa + fc.conj(),
                yastn.tensordot(fa, fd, axes=(0, 0)), yastn.tensordot(fd, fa, axes=(0, 0)), fd.conj() + fa, yastn.vdot(fa, fd.conj()))
    if op == 'fuse_dot_disjoint':
        fe = e.fuse_legs(axes=((0, 1), 2), mode='hard')
        ff = f.conj().fuse_legs(axes=((0, 1), 2), mode='hard')
        return (yastn.tensordot(fe, ff, axes=(0, 0)), yastn.vdot(ff.conj(), fe), fe + ff.conj(), yastn.tensordot(ff, fe, axes=((0, 1), (0, 1))),
                yastn.tensordot(fe, ff, axes=(0, 0)).trace(axes=(0, 1)))
    if op == 'svd':
        U, S, V = yastn.linalg.svd(a, axes=((0, 1), (2,)), sU=-1)
        return U.struct, U.slices, tuple(U.hfs), S.struct, V.struct, U @ S @ V
    if op == 'ncon':
        return yastn.ncon([a, b, c], [[1, 2, -1], [1, 2, 3], [-2, -3, 3]]), yastn.ncon([a, b], [[1, -1, 2], [1, -2, 2]], conjs=(0, 0))
    raise KeyError(op)


class Shadow:
    """wraps the cached meta functions: every value served must equal a fresh __wrapped__ call and its first-seen digest."""
    TABLE = [('_contractions', ['_meta_broadcast', '_meta_tensordot_f2m', '_meta_tensordot_fc', '_meta_tensordot_nf', '_meta_mask', '_common_inds',
                                '_meta_swap_gate', '_meta_swap_gate_charge', '_meta_trace', '_meta_vdot']),
             ('_einsum', ['_meta_ncon']),
             ('_merging', ['_meta_merge_to_matrix', '_meta_unmerge_matrix', '_masks_hfs_intersection', '_leg_structure_combine_charges_prod',
                           '_meta_fuse_hard', '_meta_unfuse_hard']),
             ('_algebra', ['_meta_addition'])]

    def __init__(self, ctx):
        import yastn.tensor as T
        self.ctx = ctx
        self.mods = {m: getattr(T, m) for m, _ in self.TABLE}
        self.digests = {}
        self.calls = 0
        self.installed = []

    @staticmethod
    def digest(v):
        if isinstance(v, np.ndarray):
            return ('nd', v.dtype.str, v.shape, tuple(v.ravel().tolist()))
        if isinstance(v, dict):
            return ('d', tuple((Shadow.digest(k), Shadow.digest(x)) for k, x in v.items()))
        if isinstance(v, (list, tuple)):
            return (type(v).__name__[0], tuple(Shadow.digest(x) for x in v))
        if isinstance(v, slice):
            return ('sl', v.start, v.stop, v.step)
        return v

    def install(self):
        # module-level names are also imported by value into other modules (from ._merging import _meta_mask ...): patch every alias
        import sys
        mods = [m for n, m in sys.modules.items() if n.startswith('yastn') and m is not None]
        for mname, names in self.TABLE:
            mod = self.mods[mname]
            for fn in names:
                cached = getattr(mod, fn)
                if getattr(cached, '_shadow', False):
                    cached = cached._cached
                w = self._wrap(f'{mname}.{fn}', cached)
                for m in mods:
                    if getattr(m, fn, None) is not None and (getattr(m, fn) is getattr(mod, fn)):
                        setattr(m, fn, w)
                setattr(mod, fn, w)

    def uninstall(self):
        import sys
        mods = [m for n, m in sys.modules.items() if n.startswith('yastn') and m is not None]
        for mname, names in self.TABLE:
            mod = self.mods[mname]
            for fn in names:
                w = getattr(mod, fn)
                if getattr(w, '_shadow', False):
                    for m in mods:
                        if getattr(m, fn, None) is w:
                            setattr(m, fn, w._cached)

    def _wrap(self, name, cached):
        sh = self
        def w(*args, **kw):
            sh.calls += 1
            v = cached(*args, **kw)
            d = Shadow.digest(v)
            fresh = Shadow.digest(cached.__wrapped__(*args, **kw))
            args = args + tuple(sorted(kw.items()))
            sh.ctx.check(d == fresh, f'cache:{name}:served-value==fresh-computation', 'a cached entry differs from recomputation (collision or altered entry)')
            key = (name, Shadow.digest(args) if False else id(cached), args)
            try:
                old = sh.digests.setdefault((name, args), d)
                sh.ctx.check(old == d, f'cache:{name}:entry-never-altered', 'value for the same arguments changed during the process')
            except TypeError:
                pass
            return v
        w._shadow = True
        w._cached = cached
        w.__wrapped__ = cached.__wrapped__
        w.cache_clear = cached.cache_clear
        w.cache_info = cached.cache_info
        return w


def k_history(ctx, spec):
    import yastn
    rng = rng_of(spec)
    fams = FAM1 if spec['fam'] == 'one' else FAM2
    tens = [_fam_tensors(ctx, f, i, 'x') for i, f in enumerate(fams)]
    # collision precondition: identical struct and slices across the family
    for cfg, a, b, c, d, e, f in tens[1:]:
        ctx.check(a.struct == tens[0][1].struct and a.slices == tens[0][1].slices and b.struct == tens[0][2].struct, 'family:colliding-layout',
                  (a.struct, tens[0][1].struct))
    L = 8 if spec['tier'] == 'quick' else 12
    pool = [(i, op) for i in range(len(fams)) for op in OPS if not (op == 'svd' and i > 1)]
    hist = rng.sample(pool, L)
    # make sure the same op appears on at least two different families (that is what collides)
    if rng.random() < 0.6:
        hist[0] = (hist[0][0], rng.choice(['fuse02', 'transpose_fuse', 'dot_f2m', 'fuse_dot_mismatch', 'fuse_dot_disjoint', 'fuse01_unfuse']))
    op0 = hist[0][1]
    hist[1] = ((hist[0][0] + 1) % len(fams), op0)
    hist[2] = ((hist[0][0] + 2) % len(fams), op0)
    yastn.set_cache_maxsize(1024)
    sh = Shadow(ctx)
    try:
        # baseline: each (family, op) in isolation on a cold cache
        base = {}
        for (i, op) in hist:
            yastn.clear_cache()
            base[(i, op)] = _observe(_apply(op, *tens[i]))
        def play(order, regime):
            for pos, (i, op) in enumerate(order):
                if regime == ('clear', pos):
                    yastn.clear_cache()
                got = _observe(_apply(op, *tens[i]))
                _same(ctx, got, base[(i, op)], f'{regime}:{fams[i]}:{op}')
        orders = [list(hist), list(hist)[::-1], sorted(hist, key=lambda x: (x[1], x[0]))]
        for _ in range(3 if spec['tier'] == 'quick' else 12):
            o = list(hist)
            rng.shuffle(o)
            orders.append(o)
        yastn.clear_cache()
        sh.install()
        for o in orders:
            play(o, 'warm')
        for k in range(0, L, 2):
            play(orders[k % len(orders)], ('clear', k))
        sh.uninstall()
        for ms in (0, 1):
            yastn.set_cache_maxsize(ms)
            sh.install()
            play(orders[ms], f'maxsize={ms}')
            play(orders[-1], f'maxsize={ms}')
            sh.uninstall()
        yastn.set_cache_maxsize(1024)
        info = yastn.get_cache_info()
        ctx.check(len(info) == 18, 'get_cache_info lists the 18 tables', len(info))
    finally:
        sh.uninstall()
        yastn.set_cache_maxsize(1024)
    return {'history': [(fams[i], op) for i, op in hist], 'shadow_calls': sh.calls}


def _same(ctx, got, ref, label):
    ctx.check(got.kind == ref.kind, f'{label}:kind')
    if got.kind == 'T':
        ctx.check(got.meta == ref.meta, f'{label}:metadata-identical', [g == r for g, r in zip(got.meta, ref.meta)])
        ctx.check(len(got.data) == len(ref.data), f'{label}:size')
        ctx.eq(got.data, ref.data, f'{label}:values-identical')
    elif got.kind == 'V':
        v = got.v
        if isinstance(v, (int, float, complex, np.number)) or v.__class__.__name__ in ('SV', 'SC'):
            ctx.eq([v], [ref.v], f'{label}:value')
        else:
            ctx.check(v == ref.v, f'{label}:value', (v, ref.v))
    else:
        ctx.check(len(got.items) == len(ref.items), f'{label}:arity')
        for k, (g, r) in enumerate(zip(got.items, ref.items)):
            _same(ctx, g, r, f'{label}[{k}]')
