"""
C15 -- operations never modify their operands; copies are independent.

Every argument of every public operation is snapshotted (structure, slices, fusion records, lazy permutation, identity and
term-by-term content of the data array) before the call and compared afterwards.  Data elements are solver variables: "some
element of an argument differs after the call for some input value" is a z3 query (so `*= -1` twice is fine, `*= 2` is not).
copy()/clone() independence: the documented in-place API is applied to the source (and to the copy) with fresh symbols and the
other object must still equal the pre-mutation snapshot.
"""
from __future__ import annotations
import copy as _copy
import itertools
import numpy as np
from symx import catalogue as cat
from symx.wellformed import gadd
from .common import rng_of, describe
from .C01 import hash_seed

PROPERTY = 'C15'
ASSUMPTIONS = ['exact arithmetic', 'NumPy backend (no autograd aliasing)']
OUTSIDE = ['torch autograd aliasing', 'get_Schmidt_values/get_entropy (QR sign forks x SVD: path explosion; norm() covers the same copy-then-canonize pattern)', 'operations needing iterative LAPACK/Krylov (dmrg_, tdvp_, ctmrg_, eigs, expmv)', 'sequences longer than 3 operations']
OPTS = {'quick': {'max_paths': 400}, 'thorough': {'max_paths': 4000}}

UNARY = ['copy', 'clone', 'shallow_copy', 'conj', 'conj_blocks', 'flip_signature', 'flip_charges', 'switch_signature', 'transpose', 'T', 'H',
         'moveaxis', 'consume_transpose', 'fuse_hard', 'fuse_meta', 'fuse_unfuse', 'fuse_meta_to_hard', 'add_leg', 'add_remove_leg', 'drop_leg_history',
         'mul', 'rmul', 'truediv', 'neg', 'pow', 'abs', 'real', 'imag', 'exp', 'reciprocal', 'norm', 'norm_inf', 'to_numpy', 'to_dense', 'to_nonsymmetric',
         'to_dict0', 'to_dict1', 'to_dict2', 'to_from_dict', 'legacy_from_dict', 'save_to_dict', 'get_legs', 'get_shape', 'getitem', 'trace', 'svd', 'qr', 'svd_with_truncation',
         'svdvals', 'to_number', 'is_consistent', 'remove_zero_blocks', 'str', 'contains', 'swap_gate', 'swap_gate_charge', 'detach', 'to', 'requires_grad',
         'split_combine', 'ncon_self', 'einsum_self', 'eigh', 'diag_roundtrip', 'lt', 'bitwise_not', 'sqrt', 'rsqrt', 'truncation_mask', 'entropy_skip']
BINARY = ['add', 'sub', 'add_amplitudes', 'tensordot', 'tensordot_fc', 'tensordot_nf', 'tensordot_f2m', 'matmul', 'vdot', 'broadcast', 'apply_mask', 'ncon',
          'einsum', 'block', 'allclose', 'are_independent', 'fkron', 'tensordot_diag', 'vdot_fused_mismatch', 'add_fused_mismatch', 'legs_union', 'leg_product']
INPLACE = ['copy_then_set_block', 'copy_then_setitem', 'clone_then_set_block', 'copy_mutate_copy', 'shallow_then_setitem_documented']
MPS_OPS = ['legacy_dict', 'copy', 'clone', 'shallow_copy', 'add', 'sub', 'mul', 'neg', 'matmul', 'conj', 'transpose', 'H', 'reverse_sites', 'to_tensor', 'measure_overlap',
           'measure_mpo', 'measure_1site', 'measure_2site', 'to_dict', 'copy_then_canonize', 'copy_then_orthogonalize', 'copy_then_setitem',
           'env_setup', 'get_bond_dimensions', 'on_bra', 'multiply_mode', 'add_amplitudes', 'norm', 'is_canonical', 'truediv']
FUNCTIONS = ['Tensor: ' + ', '.join(UNARY + BINARY), 'in-place API: ' + ', '.join(INPLACE), 'MPS/MPO: ' + ', '.join(MPS_OPS), 'Lattice/Peps containers: copy/clone/shallow_copy/apply_gate_ args']
BOUNDS = {'quick': {'structures': 'catalogue rank 2..3, dims 1,2; one operation per case; covering array (sym x op x lazy x dtype)'},
          'thorough': {'structures': 'catalogue rank 2..4; pairs of operations'}}
SYMS = list(cat.SYMS)
FLOAT_XVAL = {'quick': 1.0, 'thorough': 1.0}     # LAPACK-level aliasing (overwrite flags) is visible on the real backend only
FLOAT_NUMERIC_IS_VIOLATION = True


def cases(tier, seed):
    out = []
    reps = 1 if tier == 'quick' else 20
    for group, ops in (('unary', UNARY), ('binary', BINARY), ('inplace', INPLACE)):
        fac = {'op': ops, 'sym': SYMS, 'lazy': ['plain', 'lazy'], 'dtype': ['real', 'complex']}
        for rep in range(reps):
            for i, row in enumerate(cat.covering(fac, seed=seed * 13 + rep + len(group), strength=2)):
                c = dict(row)
                c.update(kind=group, tier=tier, id=f'{group}-{rep}-{i}', seed=hash_seed(seed, 'C15', group, rep, i))
                out.append(c)
    for rep in range(reps):
        for i, row in enumerate(cat.covering({'op': MPS_OPS, 'sym': ['dense', 'Z2', 'U1'], 'N': [2, 3], 'obj': ['mps', 'mpo'], 'central': ['none', 'none', 'inner', 'edge']}, seed=seed * 7 + rep, strength=2)):
            c = dict(row)
            c.update(kind='mps', tier=tier, id=f'mps-{rep}-{i}', seed=hash_seed(seed, 'C15', 'mps', rep, i))
            out.append(c)
    for i, g in enumerate(['peps_copy', 'peps_clone', 'peps_shallow', 'peps_apply_gate_args', 'peps_to_tensor', 'peps_add', 'peps_copy_patch', 'peps_clone_patch', 'peps_product_args', 'peps_dict_args', 'double_apply_gate_on_ket']):
        for sym in ('dense', 'Z2', 'U1'):
            out.append({'kind': 'peps', 'op': g, 'sym': sym, 'tier': tier, 'id': f'peps-{g}-{sym}', 'seed': hash_seed(seed, 'C15', g, sym)})
    return out


def run(ctx, spec):
    return globals()['k_' + spec['kind']](ctx, spec)


# ----------------------------------------------------------------------------------------------------------------------

class Snap:
    """observable state of a tensor (or a list/dict of tensors)"""
    def __init__(self, t):
        self.t = t
        self.struct, self.slices, self.hfs, self.mfs, self.trans = t.struct, t.slices, tuple(t.hfs), tuple(t.mfs), tuple(t.trans)
        self.config = t.config
        self.data_obj = t._data
        self.elems = list(t._data)          # element objects (terms / floats) at snapshot time
        self.dtype = t._data.dtype
        self.isdiag = t.isdiag

    def verify(self, ctx, label):
        t = self.t
        ctx.check(t.struct == self.struct and t.slices == self.slices, f'{label}:struct-unchanged', (t.struct, self.struct))
        ctx.check(tuple(t.hfs) == self.hfs and tuple(t.mfs) == self.mfs and tuple(t.trans) == self.trans, f'{label}:fusion/trans-unchanged')
        ctx.check(t.config == self.config, f'{label}:config-unchanged')
        ctx.check(t._data is self.data_obj, f'{label}:data-array-identity')
        ctx.check(t._data.dtype == self.dtype and len(t._data) == len(self.elems), f'{label}:data-shape/dtype')
        now = list(t._data)
        if all(x is y for x, y in zip(now, self.elems)):
            ctx.stats.concrete_checks += 1
            return
        ctx.eq(now, self.elems, f'{label}:data-values-unchanged')

    def verify_values(self, ctx, t, label):
        """t (another object, e.g. a copy) still has the snapshotted value"""
        ctx.check(t.struct == self.struct and t.slices == self.slices and tuple(t.hfs) == self.hfs and tuple(t.mfs) == self.mfs and tuple(t.trans) == self.trans,
                  f'{label}:structure')
        ctx.eq(list(t._data), self.elems, f'{label}:values')


class DSnap:
    """observable value of a plain container argument (dict / list / tuple of scalars, arrays, tensors, nested containers)"""
    def __init__(self, d):
        self.d = d
        self.snap = self._snap(d)

    def _snap(self, x):
        import yastn
        if isinstance(x, dict):
            return ('dict', [(k, self._snap(v)) for k, v in x.items()])
        if isinstance(x, (list, tuple)) and not hasattr(x, '_fields'):
            return ('list' if isinstance(x, list) else 'tuple', [self._snap(v) for v in x])
        if isinstance(x, yastn.Tensor):
            return ('tensor', x, Snap(x))
        if isinstance(x, np.ndarray):
            return ('array', x, list(x.flat), x.shape, x.dtype)
        return ('value', x)

    def _verify(self, ctx, x, sn, label):
        kind = sn[0]
        if kind == 'dict':
            ctx.check(isinstance(x, dict) and list(x.keys()) == [k for k, _ in sn[1]], f'{label}:dict-keys-unchanged', (list(x.keys()) if isinstance(x, dict) else type(x), [k for k, _ in sn[1]]))
            for k, c in sn[1]:
                self._verify(ctx, x[k], c, label)
        elif kind in ('list', 'tuple'):
            ctx.check(isinstance(x, list if kind == 'list' else tuple) and len(x) == len(sn[1]), f'{label}:sequence-unchanged')
            for v, c in zip(x, sn[1]):
                self._verify(ctx, v, c, label)
        elif kind == 'tensor':
            ctx.check(x is sn[1], f'{label}:entry-object-replaced', 'a tensor held by the argument was replaced by another object')
            sn[2].verify(ctx, label)
        elif kind == 'array':
            ctx.check(x is sn[1] and x.shape == sn[3] and x.dtype == sn[4], f'{label}:array-identity/shape/dtype')
            now = list(x.flat)
            if not all(a is b for a, b in zip(now, sn[2])):
                ctx.eq(now, sn[2], f'{label}:array-values-unchanged')
        else:
            same = (x is sn[1]) or (type(x) == type(sn[1]) and x == sn[1])
            ctx.check(bool(same), f'{label}:value-unchanged', (repr(x)[:60], repr(sn[1])[:60]))

    def verify(self, ctx, label):
        self._verify(ctx, self.d, self.snap, label)


def _mk(ctx, rng, spec, name, rank, cfg, **kw):
    ts = cat.rand_tensor_spec(rng, spec['sym'], rank, dims=(1, 2), nsect=(1, 2), max_size=48, dtype=spec.get('dtype', 'real'), **kw)
    if ts is None:
        ctx.skip('none')
    t = cat.build(ctx, ts, name, config=cfg)
    return t, ts


def _lazy(rng, spec, t):
    if spec.get('lazy') == 'lazy' and t.ndim >= 2:
        p = list(range(t.ndim))
        rng.shuffle(p)
        return t.transpose(tuple(p))
    return t


def k_unary(ctx, spec):
    import yastn
    rng = rng_of(spec)
    op = spec['op']
    ferm = op.startswith('swap_gate')
    symn = spec['sym'] if not (ferm and spec['sym'] in ('dense', 'Z3')) else 'U1'
    cfg = cat.make_config(symn, fermionic=True if ferm else False)
    spec = dict(spec, sym=symn)
    rank = rng.choice([2, 3])
    if op in ('svd', 'qr', 'svd_with_truncation', 'svdvals'):
        a, ts = _mk(ctx, rng, spec, 'a', rank, cfg)
    elif op in ('eigh', 'diag_roundtrip', 'trace', 'ncon_self', 'einsum_self'):
        leg = cat.rand_leg(rng, symn, nsect=(1, 2), dims=(1, 2))
        s0 = rng.choice([1, -1])
        ts = {'sym': symn, 'fermionic': False, 's': [s0, -s0], 'legs': [leg, leg], 'n': list(cfg.sym.zero()) if cfg.sym.NSYM else [], 'blocks': None,
              'dtype': spec.get('dtype', 'real'), 'isdiag': False}
        a = cat.build(ctx, ts, 'a', config=cfg)
    elif op in ('lt', 'bitwise_not', 'sqrt', 'rsqrt', 'truncation_mask'):
        ts = cat.rand_diag_spec(rng, symn, dims=(1, 2), dtype='real')
        a = cat.build(ctx, ts, 'a', config=cfg)
        if ctx.mode == 'sym':
            for x in a._data:
                ctx.assume(x >= 0)
        else:
            a._data = np.abs(a._data)
    elif op == 'to_number':
        ts = cat.rand_tensor_spec(rng, symn, 0) or ctx.skip('none')
        a = cat.build(ctx, ts, 'a', config=cfg)
    else:
        a, ts = _mk(ctx, rng, spec, 'a', rank, cfg)
    a = _lazy(rng, spec, a) if not a.isdiag else a
    if op == 'bitwise_not':
        a = a > 0
    s = Snap(a)
    x = ctx.scalar('x', 'real')
    r = None
    symid = cfg.sym.SYM_ID
    try:
        if op == 'copy': r = a.copy()
        elif op == 'clone': r = a.clone()
        elif op == 'shallow_copy': r = a.shallow_copy()
        elif op == 'conj': r = a.conj()
        elif op == 'conj_blocks': r = a.conj_blocks()
        elif op == 'flip_signature': r = a.flip_signature()
        elif op == 'flip_charges': r = a.flip_charges(axes=0)
        elif op == 'switch_signature': r = a.switch_signature(axes=[a.ndim - 1])
        elif op == 'transpose': r = a.transpose(tuple(range(a.ndim))[::-1])
        elif op == 'T': r = a.T
        elif op == 'H': r = a.H
        elif op == 'moveaxis': r = a.moveaxis(0, -1)
        elif op == 'consume_transpose': r = a.consume_transpose()
        elif op == 'fuse_hard': r = a.fuse_legs(axes=((1, 0),) + tuple(range(2, a.ndim)), mode='hard')
        elif op == 'fuse_meta': r = a.fuse_legs(axes=((1, 0),) + tuple(range(2, a.ndim)), mode='meta')
        elif op == 'fuse_unfuse': r = a.fuse_legs(axes=((0, 1),) + tuple(range(2, a.ndim)), mode=rng.choice(['hard', 'meta'])).unfuse_legs(axes=0)
        elif op == 'fuse_meta_to_hard': r = a.fuse_legs(axes=((0, 1),) + tuple(range(2, a.ndim)), mode='meta').fuse_meta_to_hard()
        elif op == 'add_leg': r = a.add_leg(axis=1, s=1)
        elif op == 'add_remove_leg': r = a.add_leg(axis=0, s=-1).remove_leg(axis=0)
        elif op == 'drop_leg_history': r = a.fuse_legs(axes=((0, 1),) + tuple(range(2, a.ndim)), mode='hard').drop_leg_history()
        elif op == 'mul': r = a * x
        elif op == 'rmul': r = x * a
        elif op == 'truediv':
            ctx.assume(x != 0)
            r = a / x
        elif op == 'neg': r = -a
        elif op == 'pow': r = a ** 2
        elif op == 'abs': r = abs(a)
        elif op == 'real': r = a.real()
        elif op == 'imag': r = a.imag()
        elif op == 'exp': r = a.exp(x) if spec.get('dtype') == 'real' else a.conj()
        elif op == 'reciprocal': r = a.reciprocal(cutoff=0.5) if spec.get('dtype') == 'real' and a.size <= 6 else a.conj()
        elif op == 'norm': r = a.norm()
        elif op == 'norm_inf': r = a.norm(p='inf') if a.size <= 5 and spec.get('dtype') == 'real' else a.norm()
        elif op == 'to_numpy': r = a.to_numpy()
        elif op == 'to_dense': r = a.to_dense()
        elif op == 'to_nonsymmetric': r = a.to_nonsymmetric()
        elif op.startswith('to_dict'): r = a.to_dict(level=int(op[-1]))
        elif op == 'to_from_dict':
            d = a.to_dict(level=rng.choice([0, 1, 2]))
            ds = DSnap(d)
            r = yastn.from_dict(d)
            r2 = yastn.Tensor.from_dict(d)
            ds.verify(ctx, 'from_dict:argument')
        elif op == 'legacy_from_dict':
            import warnings
            with warnings.catch_warnings():
                warnings.simplefilter('ignore')
                d = a.save_to_dict()
                ds = DSnap(d)
                r = yastn.load_from_dict(config=cfg, d=d)
            ds.verify(ctx, 'load_from_dict:argument')
        elif op == 'save_to_dict':
            import warnings
            with warnings.catch_warnings():
                warnings.simplefilter('ignore')
                r = a.save_to_dict()
        elif op == 'get_legs': r = (a.get_legs(), a.get_legs(native=True), a.get_shape(), a.get_signature(), a.get_blocks_charge())
        elif op == 'get_shape': r = (a.get_shape(), a.get_rank(), a.size, a.get_tensor_charge(), a.get_blocks_shape(), a.is_complex(), a.yastn_dtype, a.device)
        elif op == 'getitem':
            legs = a.get_legs(native=True)
            for combo in itertools.product(*[l.t for l in legs]):
                try:
                    r = a[sum(combo, ())]
                except yastn.YastnError:
                    pass
        elif op == 'trace': r = a.trace(axes=(0, 1))
        elif op == 'ncon_self': r = yastn.ncon([a, a], [[-1, 1], [1, -2]])
        elif op == 'einsum_self': r = yastn.einsum('ij,jk->ik', a, a)
        elif op == 'svd': r = yastn.linalg.svd(a, axes=(tuple(range(1, a.ndim)), (0,)), sU=-1)
        elif op == 'svdvals': r = yastn.linalg.svd(a, axes=((0,), tuple(range(1, a.ndim))), compute_uv=False)
        elif op == 'qr':
            if sum(1 for _ in a._data) > 30:
                ctx.skip('large')
            r = yastn.linalg.qr(a, axes=((0,), tuple(range(1, a.ndim))))
        elif op == 'svd_with_truncation': r = yastn.linalg.svd_with_truncation(a, axes=((0,), tuple(range(1, a.ndim))), D_total=1)
        elif op == 'eigh':
            h = a + a.H
            sh = Snap(h)
            r = yastn.linalg.eigh(h, axes=(0, 1))
            sh.verify(ctx, 'eigh-arg')
        elif op == 'diag_roundtrip':
            r = a.diag().diag()
        elif op == 'to_number': r = a.to_number()
        elif op == 'is_consistent': r = a.is_consistent()
        elif op == 'remove_zero_blocks': r = a.remove_zero_blocks() if a.size <= 4 and spec.get('dtype') == 'real' else a.copy()
        elif op == 'str': r = (str(a), repr(a))
        elif op == 'contains': r = [(t in a) for t in a.get_blocks_charge()]
        elif op == 'swap_gate': r = a.swap_gate(axes=(0, 1))
        elif op == 'swap_gate_charge': r = a.swap_gate(axes=0, charge=tuple(1 for _ in range(cfg.sym.NSYM)))
        elif op == 'detach': r = a.detach()
        elif op == 'to': r = a.to(dtype='complex128' if ctx.mode == 'float' else None)
        elif op == 'requires_grad': r = a.requires_grad
        elif op == 'split_combine':
            d, m = yastn.split_data_and_meta(a.to_dict(level=0))
            r = yastn.Tensor.from_dict(yastn.combine_data_and_meta(d, m))
        elif op == 'lt': r = (a < x, a > x, a <= x, a >= x) if a.size <= 3 else (a > 0)
        elif op == 'bitwise_not': r = a.bitwise_not()
        elif op == 'sqrt': r = a.sqrt()
        elif op == 'rsqrt': r = a.rsqrt(cutoff=0.25) if a.size <= 4 else a.sqrt()
        elif op == 'truncation_mask': r = a.truncation_mask(D_total=1) if a.size <= 4 else a.copy()
        else:
            ctx.skip('op not applicable')
    except yastn.YastnError:
        # operation rejected this operand (outside its domain) -- the operand must still be untouched
        pass
    s.verify(ctx, op)
    return {'op': op, 'a': describe(a)}


def k_binary(ctx, spec):
    import yastn
    from .C01 import _partner_spec
    from .C03 import _rich_pair
    rng = rng_of(spec)
    op = spec['op']
    symn = spec['sym']
    ferm = op == 'fkron'
    if ferm and symn not in ('Z2', 'U1'):
        symn = 'Z2'
    spec = dict(spec, sym=symn, tier='quick', overlap='overlap')
    cfg = cat.make_config(symn, fermionic=ferm)
    snaps = []
    args = []
    if op in ('add', 'sub', 'add_amplitudes', 'vdot', 'allclose', 'are_independent', 'block'):
        a, ta = _mk(ctx, rng, spec, 'a', rng.choice([2, 3]), cfg)
        tb = _partner_spec(rng, spec, ta, 'overlap')
        b = cat.build(ctx, tb, 'b', config=cfg)
        p = list(range(a.ndim)); rng.shuffle(p)
        if spec['lazy'] == 'lazy':
            a, b = a.transpose(tuple(p)), b.transpose(tuple(p))
    elif op in ('vdot_fused_mismatch', 'add_fused_mismatch'):
        a, b, _, _ = _rich_pair(ctx, rng, spec, cfg, 2, 1, 1, same_side=True)
        a, b = a.fuse_legs(axes=((0, 1), 2), mode='hard'), b.fuse_legs(axes=((0, 1), 2), mode='hard')
    elif op in ('broadcast', 'apply_mask', 'tensordot_diag'):
        td = cat.rand_diag_spec(rng, symn, dims=(1, 2), dtype='real')
        a = cat.build(ctx, td, 'a', config=cfg)
        if op == 'apply_mask':
            a._data = np.array([(i % 2 == 0) for i in range(a.size)], dtype=bool)
        fixed = {0: (-td['s'][1], td['legs'][0])}
        tb = cat.rand_tensor_spec(rng, symn, 2, fixed=fixed, dims=(1, 2), max_size=40, dtype=spec.get('dtype', 'real'))
        if tb is None:
            ctx.skip('none')
        dD = dict(zip([tuple(t) for t in td['legs'][0]['t']], td['legs'][0]['D']))
        tb['legs'][0]['D'] = [dD.get(tuple(t), D) for t, D in zip(tb['legs'][0]['t'], tb['legs'][0]['D'])]
        b = cat.build(ctx, tb, 'b', config=cfg)
    elif op == 'fkron':
        ops = yastn.operators.SpinlessFermions(sym=symn, backend=cfg.backend)
        a, b = ops.c(), ops.cp()
        a = ctx.fill(a.copy(), 'a', 'real')
        b = ctx.fill(b.copy(), 'b', 'real')
    elif op in ('legs_union', 'leg_product'):
        a, ta = _mk(ctx, rng, spec, 'a', 2, cfg)
        b = a.copy()
    else:
        a, b, _, _ = _rich_pair(ctx, rng, spec, cfg, rng.choice([1, 2]), 1, 1)
        if spec['lazy'] == 'lazy':
            a = a.transpose(tuple(range(1, a.ndim)) + (0,)).transpose((a.ndim - 1,) + tuple(range(a.ndim - 1)))
    sa, sb = Snap(a), Snap(b)
    x = ctx.scalar('x', 'real')
    k = None
    try:
        if op == 'add': r = a + b
        elif op == 'sub': r = a - b
        elif op == 'add_amplitudes': r = yastn.add(a, b, a, amplitudes=[x, None, 2.0])
        elif op == 'vdot': r = yastn.vdot(a, b)
        elif op == 'allclose': r = a.struct == b.struct and yastn.allclose(a, a.copy())
        elif op == 'are_independent': r = yastn.are_independent(a, b)
        elif op == 'block': r = yastn.block({(0,) * a.ndim: a, (1,) * a.ndim: b})
        elif op in ('vdot_fused_mismatch',): r = yastn.vdot(a, b)
        elif op in ('add_fused_mismatch',): r = a + b
        elif op == 'broadcast': r = a.broadcast(b, axes=0)
        elif op == 'apply_mask': r = a.apply_mask(b, axes=0)
        elif op == 'tensordot_diag': r = (yastn.tensordot(a, b, axes=(1, 0)), yastn.tensordot(b, a, axes=(0, 0)))
        elif op == 'fkron': r = yastn.fkron(a, b, sites=(1, 0))
        elif op == 'legs_union': r = yastn.legs_union(a.get_legs(0), b.get_legs(0))
        elif op == 'leg_product': r = yastn.leg_product(a.get_legs(0), b.get_legs(1))
        else:
            nk = len([1 for la_, lb_ in zip(a.get_legs(), b.get_legs()) if la_.s == -lb_.s])
            kk = rng.choice([1, 2]) if a.ndim > 2 and b.ndim > 2 else 1
            kk = 1
            pol = {'tensordot_fc': 'fuse_contracted', 'tensordot_nf': 'no_fusion', 'tensordot_f2m': 'fuse_to_matrix'}.get(op)
            if pol:
                cfg2 = a.config._replace(tensordot_policy=pol)
                a2, b2 = a._replace(config=cfg2), b._replace(config=cfg2)
                r = yastn.tensordot(a2, b2, axes=(0, 0))
                # a2/b2 share storage with a/b: verified below through a, b
            elif op == 'tensordot': r = yastn.tensordot(a, b, axes=(0, 0), conj=(0, 0))
            elif op == 'matmul': r = a.transpose(tuple(range(1, a.ndim)) + (0,)) @ b
            elif op == 'ncon': r = yastn.ncon([a, b], [[1] + [-(i + 1) for i in range(a.ndim - 1)], [1] + [-(a.ndim + i) for i in range(b.ndim - 1)]], conjs=(0, 0))
            elif op == 'einsum':
                la = 'a' + 'bcdef'[:a.ndim - 1]
                lb = 'a' + 'ghijk'[:b.ndim - 1]
                r = yastn.einsum(f'{la},{lb}->{la[1:]}{lb[1:]}', a, b)
            else:
                ctx.skip('n/a')
    except yastn.YastnError:
        pass
    sa.verify(ctx, f'{op}:first-operand')
    sb.verify(ctx, f'{op}:second-operand')
    return {'op': op, 'a': describe(a), 'b': describe(b)}


def k_inplace(ctx, spec):
    import yastn
    rng = rng_of(spec)
    op = spec['op']
    cfg = cat.make_config(spec['sym'])
    a, ts = _mk(ctx, rng, spec, 'a', rng.choice([2, 3]), cfg)
    a = _lazy(rng, spec, a)
    legs = a.get_legs(native=True)
    key = None
    for combo in itertools.product(*[l.t for l in legs]):
        try:
            a[sum(combo, ())]
            key = sum(combo, ())
            shape = tuple(l[t] for l, t in zip(legs, combo))
            break
        except yastn.YastnError:
            pass
    if key is None:
        ctx.skip('no block')
    n = int(np.prod(shape))
    new = ctx.data('new', n, spec.get('dtype', 'real')).reshape(shape)
    if op in ('copy_then_set_block', 'clone_then_set_block', 'copy_then_setitem', 'copy_mutate_copy'):
        c = a.clone() if op.startswith('clone') else a.copy()
        ctx.check(c._data is not a._data, 'copy:independent-storage')
        src, other = (c, a) if op == 'copy_mutate_copy' else (a, c)
        s_other = Snap(other)
        if 'set_block' in op:
            # set_block works on storage order: use an un-transposed source
            src2 = src.consume_transpose()
            if src2 is src:
                src.set_block(ts=key, Ds=shape, val=new)
            else:
                k2 = src2.get_blocks_charge()[0]
                i2 = 0
                src2.set_block(ts=k2, Ds=src2.struct.D[i2], val=ctx.data('new2', int(np.prod(src2.struct.D[i2])), spec.get('dtype', 'real')))
        else:
            src[key] = new
            ctx.eq(src[key], new, 'setitem:reads-back')
        s_other.verify(ctx, f'{op}:other-object-untouched')
    elif op == 'shallow_then_setitem_documented':
        # documented sharing: shallow copies share data; item assignment on one is visible in the other (no claim), but structure objects stay intact
        c = a.shallow_copy()
        s = Snap(a)
        c2 = c.copy()
        c2[key] = new
        s.verify(ctx, 'copy-of-shallow-copy is independent')
    return {'op': op, 'a': describe(a)}


# ----------------------------------------------------------------------------------------------------------------------

class MSnap:
    def __init__(self, psi):
        self.psi = psi
        self.A = dict(psi.A)
        self.snaps = {n: Snap(t) for n, t in psi.A.items() if t is not None}
        self.pC, self.factor, self.N, self.nr_phys = psi.pC, psi.factor, psi.N, psi.nr_phys

    def verify(self, ctx, label):
        psi = self.psi
        ctx.check(set(psi.A) == set(self.A) and all(psi.A[n] is self.A[n] for n in self.A), f'{label}:site-tensors-identity', 'a site tensor object was replaced')
        ctx.check(psi.pC == self.pC and psi.N == self.N and psi.nr_phys == self.nr_phys, f'{label}:pC/N')
        ctx.eq([psi.factor], [self.factor], f'{label}:factor')
        for n, s in self.snaps.items():
            s.verify(ctx, f'{label}:site{n}')

    def verify_values(self, ctx, phi, label):
        ctx.check(phi.pC == self.pC and phi.N == self.N, f'{label}:pC/N')
        ctx.eq([phi.factor], [self.factor], f'{label}:factor')
        for n, s in self.snaps.items():
            s.verify_values(ctx, phi.A[n], f'{label}:site{n}')


def _mk_mps(ctx, spec, name, N, obj):
    import yastn
    import yastn.tn.mps as mps
    symn = spec['sym']
    cfg = cat.make_config(symn)
    ops = yastn.operators.Spin12(sym=symn, backend=cfg.backend)
    I = mps.product_mpo(ops.I(), N)
    if obj == 'mps':
        n = {'dense': (), 'Z2': (N % 2,), 'U1': (N % 2,)}[symn] if symn != 'dense' else None
        psi = mps.random_mps(I, n=n, D_total=2) if symn != 'dense' else mps.random_mps(I, D_total=2)
    else:
        psi = mps.random_mpo(I, D_total=2)
    phi = psi.shallow_copy()
    for k in phi.sweep():
        t = phi[k].copy()
        ctx.fill(t, f'{name}{k}', 'real')
        phi.A[k] = t
    return phi, ops


def k_mps(ctx, spec):
    import yastn
    import yastn.tn.mps as mps
    op, N, obj = spec['op'], spec['N'], spec['obj']
    a, ops = _mk_mps(ctx, spec, 'a', N, obj)
    b, _ = _mk_mps(ctx, spec, 'b', N, obj)
    H, _ = _mk_mps(ctx, spec, 'h', N, 'mpo')
    central = spec.get('central', 'none')
    if central != 'none':
        # a central block (as left by orthogonalize_site_) at an inner bond or at a chain end: symbolic matrix with matching legs
        rngc = rng_of(spec)
        if central == 'inner':
            k = rngc.randrange(N - 1)
            pC, vl, vr = (k, k + 1), a[k].get_legs(2).conj(), a[k + 1].get_legs(0).conj()
        elif rngc.random() < 0.5:
            pC, vl, vr = (-1, 0), a[0].get_legs(0), a[0].get_legs(0).conj()
        else:
            pC, vl, vr = (N - 1, N), a[N - 1].get_legs(2).conj(), a[N - 1].get_legs(2)
        C = yastn.zeros(config=a.config, legs=[vl, vr])
        ctx.fill(C, 'c', 'real')
        a.pC = pC
        a.A[pC] = C
    sa, sb, sH = MSnap(a), MSnap(b), MSnap(H)
    x = ctx.scalar('x', 'real', lo=0.5, hi=3)
    try:
        if op == 'copy': r = a.copy()
        elif op == 'clone': r = a.clone()
        elif op == 'shallow_copy': r = a.shallow_copy()
        elif op == 'add': r = a + b
        elif op == 'sub': r = a - b
        elif op == 'add_amplitudes': r = mps.add(a, b, amplitudes=[x, 2.0])
        elif op == 'mul': r = (x * a, a * x)
        elif op == 'neg': r = -a
        elif op == 'matmul': r = H @ a
        elif op == 'multiply_mode': r = mps.multiply(H, a)
        elif op == 'conj': r = a.conj()
        elif op == 'transpose': r = a.transpose() if obj == 'mpo' else a.conj()
        elif op == 'H': r = a.H if obj == 'mpo' else a.conj()
        elif op == 'on_bra': r = a.on_bra() if obj == 'mpo' else a.conj()
        elif op == 'reverse_sites': r = a.reverse_sites()
        elif op == 'to_tensor': r = a.to_tensor()
        elif op == 'measure_overlap': r = mps.measure_overlap(a, b)
        elif op == 'measure_mpo': r = mps.measure_mpo(a, H, b) if obj == 'mps' else mps.measure_overlap(a, b)
        elif op == 'measure_1site': r = mps.measure_1site(a, ops.z(), a) if obj == 'mps' else None
        elif op == 'measure_2site': r = mps.measure_2site(a, ops.z(), ops.z(), a, bonds='<') if obj == 'mps' else None
        elif op == 'to_dict':
            d = a.to_dict(level=0)
            ds = DSnap(d)
            r = mps.MpsMpoOBC.from_dict(d)
            ds.verify(ctx, 'MpsMpoOBC.from_dict:argument')
        elif op == 'legacy_dict':
            import warnings
            with warnings.catch_warnings():
                warnings.simplefilter('ignore')
                d = a.save_to_dict()
                ds = DSnap(d)
                r = mps.load_from_dict(a.config, d)
            ds.verify(ctx, 'mps.load_from_dict:argument')
        elif op == 'env_setup':
            env = mps.Env(a, [H, b]) if obj == 'mps' else mps.Env(a, b)
            env.setup_(to='first')
            r = env.measure()
        elif op == 'norm': r = a.norm()
        elif op == 'get_Schmidt_values': r = a.get_Schmidt_values() if N == 2 else a.norm()
        elif op == 'is_canonical': r = a.is_canonical(to='first', n=0) if ctx.mode == 'float' else a.get_bond_dimensions()
        elif op == 'truediv': r = a / x
        elif op == 'get_bond_dimensions': r = (a.get_bond_dimensions(), a.get_bond_charges_dimensions(), a.get_virtual_legs(), a.get_physical_legs())
        elif op in ('copy_then_canonize', 'copy_then_orthogonalize', 'copy_then_setitem'):
            c = a.copy()
            if op == 'copy_then_canonize':
                c.canonize_(to='first', normalize=False)
            elif op == 'copy_then_orthogonalize':
                c.orthogonalize_site_(n=0, to='last', normalize=False)
                c.absorb_central_(to='last')
            else:
                c[0] = c[0] * 2
                c.factor = 3
        else:
            ctx.skip('n/a')
    except yastn.YastnError:
        pass
    except Exception:
        if central == 'none':
            raise
        # operations that do not support a state with a central block may fail in any way; they still must not modify it
    sa.verify(ctx, f'mps.{op}:a')
    sb.verify(ctx, f'mps.{op}:b')
    sH.verify(ctx, f'mps.{op}:H')
    return {'op': op, 'N': N, 'obj': obj}


def k_peps(ctx, spec):
    import yastn
    import yastn.tn.fpeps as fpeps
    op = spec['op']
    symn = spec['sym']
    cfg = cat.make_config(symn)
    ops = yastn.operators.Spin12(sym=symn, backend=cfg.backend)
    geo = fpeps.SquareLattice(dims=(1, 2), boundary='obc')
    vec = ops.vec_z(val=1)
    psi = fpeps.product_peps(geo, vec)
    for i, s in enumerate(psi.sites()):
        t = psi[s].copy()
        ctx.fill(t, f'p{i}', 'real')
        psi[s] = t
    snaps = {s: Snap(psi[s]) for s in psi.sites()}
    ids = {s: psi[s] for s in psi.sites()}
    def verify(label):
        for s in psi.sites():
            ctx.check(psi[s] is ids[s], f'{label}:site-object-identity')
            snaps[s].verify(ctx, f'{label}:{s}')
    if op in ('peps_copy', 'peps_clone', 'peps_shallow'):
        c = psi.copy() if op == 'peps_copy' else psi.clone() if op == 'peps_clone' else psi.shallow_copy()
        # in-place modification of the copy must not touch the source
        s0 = psi.sites()[0]
        if op == 'peps_shallow':
            c[s0] = c[s0] * 2       # container-level independence only
        else:
            ctx.check(c[s0]._data is not psi[s0]._data, f'{op}:independent-storage')
            t = c[s0]
            legs = t.get_legs(native=True)
            k = t.get_blocks_charge()[0]
            t.set_block(ts=k, Ds=t.struct.D[0], val='zeros')
            c[s0] = t
        verify(op)
    elif op in ('peps_copy_patch', 'peps_clone_patch'):
        # a Peps carrying a pending patch (move_to_patch, as between a gate application and apply_patch in evolution_step_)
        sites = psi.sites()
        psi.move_to_patch(sites[:1] if spec['seed'] % 2 else sites)
        snaps = {s: Snap(psi[s]) for s in sites}
        ids = {s: psi[s] for s in sites}
        c = psi.copy() if op == 'peps_copy_patch' else psi.clone()
        verify(f'{op}: source after the call')
        csn = {s: Snap(c[s]) for s in sites}
        # in-place tensor API on every tensor the copy holds must not reach the source ...
        for s in sites:
            t = c[s]
            k = t.struct.t[0]
            t[k] = t[k] * 0 + 7
        verify(f'{op}: source after in-place change of the tensors of the copy')
        c.apply_patch()
        verify(f'{op}: source after apply_patch of the copy')
        # ... and vice versa
        c2 = psi.copy() if op == 'peps_copy_patch' else psi.clone()
        csn = {s: Snap(c2[s]) for s in sites}
        for s in sites:
            t = psi[s]
            k = t.struct.t[0]
            t[k] = t[k] * 0 + 5
        psi.apply_patch()
        for s in sites:
            csn[s].verify(ctx, f'{op}: copy after in-place change of the source:{s}')
    elif op == 'peps_product_args':
        # product_peps with a Tensor and with a dict of rank-1 / rank-2 (with ancilla) vectors: the arguments keep their value
        v1 = ops.vec_z(val=1)
        v2 = ops.vec_z(val=-1).add_leg(s=-1)
        sv = Snap(v1)
        fpeps.product_peps(geo, v1)
        sv.verify(ctx, 'product_peps(Tensor):argument')
        d = {s: (v1 if i % 2 == 0 else v2) for i, s in enumerate(geo.sites())}
        ds = DSnap(d)
        fpeps.product_peps(geo, d)
        ds.verify(ctx, 'product_peps(dict):argument')
    elif op == 'peps_dict_args':
        import warnings
        d = psi.to_dict(level=rng_of(spec).choice([0, 1, 2]))
        ds = DSnap(d)
        r = fpeps.Peps.from_dict(d)
        r = fpeps.load_from_dict(cfg, d)
        ds.verify(ctx, 'Peps.from_dict:argument')
        verify('to_dict/from_dict')
        with warnings.catch_warnings():
            warnings.simplefilter('ignore')
            d = psi.save_to_dict()
            ds = DSnap(d)
            r = fpeps.load_from_dict(cfg, d)
        ds.verify(ctx, 'fpeps.load_from_dict(legacy dict):argument')
        verify('save_to_dict/load_from_dict')
        # the older legacy layout names the geometry under the key 'lattice'
        d2 = dict(d)
        d2['lattice'] = {'SquareLattice': 'square'}[d2.pop('type')]
        ds = DSnap(d2)
        r = fpeps.load_from_dict(cfg, d2)
        ds.verify(ctx, "fpeps.load_from_dict(legacy dict with 'lattice' key):argument")
    elif op == 'double_apply_gate_on_ket':
        # DoublePepsTensor.apply_gate_on_ket returns a new object; the receiver (incl. its pending charge swaps) keeps its value
        from yastn.tn.fpeps._doublePepsTensor import DoublePepsTensor
        fsym = symn if symn != 'dense' else 'Z2'
        fcfg = cat.make_config(fsym, fermionic=True)
        fops = yastn.operators.SpinlessFermions(sym=fsym, backend=fcfg.backend)
        fpsi = fpeps.product_peps(geo, fops.vec_n(val=1))
        s0 = geo.sites()[0]
        A = fpsi[s0].copy()
        ctx.fill(A, 'dk', 'real')
        one = (1,) if fcfg.sym.NSYM == 1 else tuple(1 for _ in range(fcfg.sym.NSYM))
        for swaps in ({}, {'k4': one}, {'k4': one, 'b4': one, 'k1': one}):
            dt = DoublePepsTensor(bra=A, ket=A, swaps=swaps)
            sA = Snap(A)
            before = (dict(dt.swaps), dt.bra, dt.ket, dt.op, dt.trans)
            g = fops.cp().add_leg(axis=2, s=1)        # operator with an auxiliary leg, as produced by splitting a two-site gate
            sg = Snap(g)
            r = dt.apply_gate_on_ket(g, dirn='l')
            ctx.check(r is not dt, 'apply_gate_on_ket returns a new object')
            ctx.check(dt.swaps == before[0] and dt.bra is before[1] and dt.ket is before[2] and dt.op is before[3] and dt.trans == before[4],
                      'apply_gate_on_ket:receiver-unchanged', (dt.swaps, before[0]))
            sA.verify(ctx, 'apply_gate_on_ket:ket tensor')
            sg.verify(ctx, 'apply_gate_on_ket:gate')
            for mk in ('copy', 'clone'):
                c = getattr(dt, mk)()
                c.add_charge_swaps_(one, axes=['k2'])
                ctx.check(dt.swaps == before[0], f'DoublePepsTensor.{mk}: in-place change of the copy leaves the source', (dt.swaps, before[0]))
    elif op == 'peps_apply_gate_args':
        g = fpeps.gates.gate_nn_Ising(0.1, 0.2, ops.I(), ops.z(), bond=geo.bonds()[0]) if hasattr(fpeps.gates, 'gate_nn_Ising') else None
        if g is None:
            ctx.skip('no gate')
        gs = [Snap(x) for x in g.G]
        c = psi.shallow_copy()
        c.apply_gate_(g)
        verify('apply_gate_ on a shallow copy leaves the source')
        for k, s in enumerate(gs):
            s.verify(ctx, f'apply_gate_:gate-tensor{k}')
    elif op == 'peps_to_tensor':
        r = psi.to_tensor()
        verify('to_tensor')
    elif op == 'peps_add':
        r = fpeps.add(psi, psi) if hasattr(fpeps, 'add') else psi + psi
        verify('peps add')
    return {'op': op}
