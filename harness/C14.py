"""
C14 -- results do not depend on contraction policy, fusion mode or lazy state.

Differential symbolic execution: the same bounded program is run on the SAME solver variables under configurations that differ
only in tensordot_policy / default_fusion / force_fusion / inserted consume_transpose()/copy(); z3 decides that legs, charge and
all dense values coincide (identical polynomials).  contract_with_unroll: every unroll spec / path vs ncon.
"""
from __future__ import annotations
import itertools
import numpy as np
from symx import catalogue as cat
from symx import dense
from symx.dense import reassemble
from symx.wellformed import wellformed
from .common import rng_of, describe
from .C01 import hash_seed, _maxsize, _dims
from .C03 import _rich_pair, _unfuse_all

PROPERTY = 'C14'
FUNCTIONS = ['_tensordot_f2m/_fc/_nf + _meta_tensordot_*', 'fuse_legs(mode=None)->default_fusion/force_fusion', 'fuse_meta_to_hard/_consume_mfs_lowest',
             'consume_transpose', 'copy', 'ncon', 'trace', '__add__', 'svd/qr (contract stubs)', 'contract_with_unroll/_contract_with_sliced_unroll',
             'get_contraction_path', 'make_sliced_legs/slice_leg_uniform/SlicedLeg']
ASSUMPTIONS = ['exact arithmetic', 'programs limited to the listed templates']
OUTSIDE = ['programs outside the templates', 'torch backends', 'opt_einsum optimisers not available offline']
POLICIES = ['fuse_to_matrix', 'fuse_contracted', 'no_fusion']
TEMPLATES = ['chain', 'ncon3', 'fuse_dot_unfuse', 'transpose_add', 'dot_trace', 'dot_svd', 'dot_qr', 'unroll', 'dot_lazy']
BOUNDS = {'quick': {'templates': TEMPLATES, 'policies': POLICIES, 'fusion': ['hard', 'meta', 'force hard', 'force meta'],
                    'materialisation points': 'every operand/intermediate: lazy | consume_transpose | copy', 'unroll labels': '<= 2',
                    'structures': 'catalogue (rank<=4, dims 1,2)'},
          'thorough': {'templates': TEMPLATES}}
OPTS = {'quick': {'max_paths': 300}, 'thorough': {'max_paths': 2000}}
SYMS = list(cat.SYMS)


def cases(tier, seed):
    out = []
    reps = 3 if tier == 'quick' else 60
    for tpl in TEMPLATES:
        fac = {'sym': SYMS, 'dtype': ['real', 'complex'], 'drop': ['none', 'some'], 'overlap': ['equal', 'subset', 'overlap']}
        if tpl == 'unroll':
            fac = {'sym': ['U1', 'Z2', 'Z3', 'dense', 'U1xU1', 'Z2xU1'], 'dtype': ['real', 'complex'], 'which': ['contracted', 'output', 'both', 'two-contracted', 'two-outputs', 'all'],
                   'slicing': ['sectors', 'uniform1', 'uniform2', 'uniform3', 'intra']}
        for rep in range(reps):
            for i, row in enumerate(cat.covering(fac, seed=seed * 17 + rep * 3 + TEMPLATES.index(tpl), strength=2)):
                c = dict(row)
                c.update(kind=tpl, tier=tier, id=f'{tpl}-{rep}-{i}', seed=hash_seed(seed, 'C14', tpl, rep, i))
                out.append(c)
    return out


def run(ctx, spec):
    return globals()['k_' + spec['kind']](ctx, spec)


def _variants(rng, n=4):
    """configuration variants: (policy, default_fusion, force_fusion, materialisation pattern seed)"""
    vs = [('fuse_contracted', 'hard', None, 0)]
    pool = [(p, f, ff, m) for p in POLICIES for f in ('hard', 'meta') for ff in (None, 'hard', 'meta') for m in (0, 1, 2, 3)]
    rng.shuffle(pool)
    # make sure each policy and each fusion mode appears
    vs += [('fuse_to_matrix', 'meta', None, 1), ('no_fusion', 'hard', 'meta', 2)]
    vs += pool[:n]
    return vs


class _Mat:
    """inserts consume_transpose()/copy() at program points according to a pattern"""
    def __init__(self, pattern):
        self.k = 0
        self.pattern = pattern
    def __call__(self, t):
        self.k += 1
        if self.pattern == 0:
            return t
        sel = (self.k * 7 + self.pattern * 3) % 4
        if sel == 0:
            return t.consume_transpose()
        if sel == 1:
            return t.copy()
        if sel == 2:
            return t.consume_transpose().copy()
        return t


def _observe(ctx, c):
    """observable content of a result: un-fused legs, charge, dense values"""
    cu = _unfuse_all(c)
    legs = cu.get_legs(native=True) if cu.ndim_n else ()
    return cu, legs


def _compare(ctx, results, label):
    (v0, c0) = results[0]
    cu0, l0 = _observe(ctx, c0)
    D0 = None
    for v, c in results[1:]:
        cu, l = _observe(ctx, c)
        ctx.check(cu.n == cu0.n, f'{label}:charge', (v0, v, cu0.n, cu.n))
        ctx.check(len(l) == len(l0) and all(x.s == y.s for x, y in zip(l, l0)), f'{label}:signatures', (v0, v))
        # legs may differ only by sectors that hold no block in one of them; compare on the union
        U = [dense_union(x, y) for x, y in zip(l, l0)]
        # legs are derived from stored blocks: a charge sector that holds no block may be remembered by one representation
        # (hard fusion keeps it in the history) and not by the other; sectors present in both must agree, and every sector
        # missing on one side must be exactly zero on the other (decided below on the union legs)
        ctx.check(all(_consistent(x, y) for x, y in zip(l, l0)), f'{label}:legs', (v0, v, [(x.t, x.D) for x in l], [(x.t, x.D) for x in l0]))
        ctx.eq(reassemble(cu, U) if U else [cu.to_number()], reassemble(cu0, U) if U else [cu0.to_number()], f'{label}: {v} == {v0}')


def _consistent(x, y):
    dx, dy = dict(zip(x.t, x.D)), dict(zip(y.t, y.D))
    return x.s == y.s and all(dx[t] == dy[t] for t in set(dx) & set(dy)) and x.hf.tree == y.hf.tree


def dense_union(x, y):
    import yastn
    d = dict(zip(x.t, x.D))
    for t, D in zip(y.t, y.D):
        d.setdefault(t, D)
    ts = sorted(d)
    return yastn.Leg(x.sym, s=x.s, t=ts, D=[d[t] for t in ts], hf=x.hf)


def _cfg(spec, v):
    return cat.make_config(spec['sym'], tensordot_policy=v[0], default_fusion=v[1], force_fusion=v[2])


def _with_cfg(t, cfg):
    return t._replace(config=cfg)


def _pair(ctx, spec, rng):
    cfg0 = cat.make_config(spec['sym'])
    k = rng.choice([1, 2, 2])
    a, b, ta, tb = _rich_pair(ctx, rng, spec, cfg0, k, rng.choice([1, 2]), rng.choice([1, 1, 2]))
    return a, b, k


def k_chain(ctx, spec):
    import yastn
    rng = rng_of(spec)
    a, b, k = _pair(ctx, spec, rng)
    # third tensor contracts with the last leg of b
    lb = b.get_legs(native=True)[-1]
    tc = cat.rand_tensor_spec(rng, spec['sym'], 2, fixed={0: (-lb.s, {'t': [list(t) for t in lb.t], 'D': list(lb.D)})}, dims=(1, 2), max_size=60, dtype=spec['dtype'])
    if tc is None:
        ctx.skip('none')
    c = cat.build(ctx, tc, 'c', config=a.config)
    pa = list(range(a.ndim)); rng.shuffle(pa)
    res = []
    for v in _variants(rng):
        cfg = _cfg(spec, v)
        m = _Mat(v[3])
        A, B, C = (_with_cfg(x, cfg) for x in (a, b, c))
        At = m(A.transpose(tuple(pa)))
        inv = {p: i for i, p in enumerate(pa)}
        ab = m(yastn.tensordot(At, m(B), axes=(tuple(inv[i] for i in range(k)), tuple(range(k)))))
        r = yastn.tensordot(ab, m(C), axes=(ab.ndim - 1, 0))
        wellformed(ctx, r, f'chain[{v}]', check_dense_zero=False)
        res.append((v, r))
    _compare(ctx, res, 'chain')
    return {'a': describe(a), 'b': describe(b)}


def k_ncon3(ctx, spec):
    import yastn
    rng = rng_of(spec)
    a, b, k = _pair(ctx, spec, rng)
    lb = b.get_legs(native=True)[-1]
    tc = cat.rand_tensor_spec(rng, spec['sym'], 2, fixed={0: (-lb.s, {'t': [list(t) for t in lb.t], 'D': list(lb.D)})}, dims=(1, 2), max_size=60, dtype=spec['dtype'])
    if tc is None:
        ctx.skip('none')
    c = cat.build(ctx, tc, 'c', config=a.config)
    ia = list(range(1, k + 1)) + [-(i + 1) for i in range(a.ndim - k)]
    nb_open = b.ndim - k - 1
    ib = list(range(1, k + 1)) + [-(a.ndim - k + i + 1) for i in range(nb_open)] + [k + 1]
    ic = [k + 1, -(a.ndim - k + nb_open + 1)]
    orders = [None, list(range(k + 1, 0, -1))]
    res = []
    for n, v in enumerate(_variants(rng)):
        cfg = _cfg(spec, v)
        m = _Mat(v[3])
        A, B, C = (m(_with_cfg(x, cfg)) for x in (a, b, c))
        r = yastn.ncon([A, B, C], [ia, ib, ic], order=orders[n % 2]) if orders[n % 2] else yastn.ncon([A, B, C], [ia, ib, ic])
        res.append((v, r))
    _compare(ctx, res, 'ncon3')
    return {'a': describe(a), 'b': describe(b)}


def k_fuse_dot_unfuse(ctx, spec):
    import yastn
    rng = rng_of(spec)
    cfg0 = cat.make_config(spec['sym'])
    a, b, ta, tb = _rich_pair(ctx, rng, spec, cfg0, 2, rng.choice([1, 2]), rng.choice([1, 2]))
    res = []
    for v in _variants(rng):
        cfg = _cfg(spec, v)
        m = _Mat(v[3])
        A, B = m(_with_cfg(a, cfg)), m(_with_cfg(b, cfg))
        fa = A.fuse_legs(axes=((0, 1),) + tuple(range(2, A.ndim)))           # mode=None -> config decides
        fb = B.fuse_legs(axes=((0, 1),) + tuple(range(2, B.ndim)))
        # pending transposition of the fused operands: the contracted fused leg sits at different logical and native positions
        fa = m(fa.transpose(tuple(range(1, fa.ndim)) + (0,)))
        fb = m(fb.transpose((fb.ndim - 1,) + tuple(range(fb.ndim - 1))).transpose(tuple(range(1, fb.ndim)) + (0,)) if v[3] % 2 else fb)
        r = yastn.tensordot(fa, fb, axes=(fa.ndim - 1, 0))
        # fuse the outputs too, then unfuse (observable after unfusing)
        if r.ndim >= 2:
            r = m(r.fuse_legs(axes=(tuple(range(r.ndim)),)))
        res.append((v, r))
        # fusion mode actually honoured
        exp_mode = v[2] or v[1]
        ctx.check((fa.mfs[-1] != (1,)) == (exp_mode == 'meta'), 'fusion-mode-honoured', (v, fa.mfs))
    _compare(ctx, res, 'fuse_dot_unfuse')
    return {'a': describe(a), 'b': describe(b)}


def k_transpose_add(ctx, spec):
    import yastn
    rng = rng_of(spec)
    cfg0 = cat.make_config(spec['sym'])
    a, b, ta, tb = _rich_pair(ctx, rng, spec, cfg0, 2, 1, 1, same_side=True)
    p = list(range(a.ndim)); rng.shuffle(p)
    res = []
    for v in _variants(rng):
        cfg = _cfg(spec, v)
        m = _Mat(v[3])
        A, B = _with_cfg(a, cfg), _with_cfg(b, cfg)
        r = m(A.transpose(tuple(p))) + m(B.transpose(tuple(p)))
        r2 = m(A.fuse_legs(axes=((0, 1), 2))) - m(B.fuse_legs(axes=((0, 1), 2)))
        res.append((v, r))
        if 'r2' not in dir():
            pass
        res2 = res2 + [(v, r2)] if 'res2' in locals() else [(v, r2)]
    _compare(ctx, res, 'transpose_add')
    _compare(ctx, res2, 'fuse_sub')
    return {'a': describe(a), 'b': describe(b)}


def k_dot_trace(ctx, spec):
    import yastn
    rng = rng_of(spec)
    cfg0 = cat.make_config(spec['sym'])
    # a(x, c1, c2) . b(c1*, c2*, x*)  then trace the remaining pair
    a, b, ta, tb = _rich_pair(ctx, rng, spec, cfg0, 2, 1, 0)
    lx = a.get_legs(native=True)[2]
    tcx = cat.rand_tensor_spec(rng, spec['sym'], 2, fixed={0: (-lx.s, {'t': [list(t) for t in lx.t], 'D': list(lx.D)})}, dims=(1, 2), max_size=40, dtype=spec['dtype'])
    res = []
    for v in _variants(rng):
        cfg = _cfg(spec, v)
        m = _Mat(v[3])
        A, B = m(_with_cfg(a, cfg)), m(_with_cfg(b, cfg))
        ab = m(yastn.tensordot(A, B, axes=((0,), (0,))))       # legs: a1, x, b1
        r = ab.trace(axes=(0, 2))
        res.append((v, r))
    _compare(ctx, res, 'dot_trace')
    return {'a': describe(a), 'b': describe(b)}


def _dot_then(ctx, spec, fact):
    import yastn
    rng = rng_of(spec)
    cfg0 = cat.make_config(spec['sym'])
    a, b, ta, tb = _rich_pair(ctx, rng, dict(spec, tier='quick'), cfg0, 1, 1, 1)
    if a.size * b.size > 600:
        ctx.skip('large')
    res = []
    for v in _variants(rng, n=2):
        cfg = _cfg(spec, v)
        m = _Mat(v[3])
        A, B = m(_with_cfg(a, cfg)), m(_with_cfg(b, cfg))
        ab = m(yastn.tensordot(A, B, axes=(0, 0)))
        if fact == 'svd':
            U, S, V = yastn.linalg.svd(ab, axes=(0, 1), sU=1)
            ctx.check(True, 'svd')
            res.append((v, U @ S @ V))
            structs = structs + [(v, (U.get_legs(), S.get_legs(), V.get_legs(), U.n, V.n))] if 'structs' in locals() else [(v, (U.get_legs(), S.get_legs(), V.get_legs(), U.n, V.n))]
        else:
            Q, R = yastn.linalg.qr(ab, axes=(0, 1), sQ=-1)
            res.append((v, Q @ R))
            structs = structs + [(v, (Q.get_legs(), R.get_legs(), Q.n, R.n))] if 'structs' in locals() else [(v, (Q.get_legs(), R.get_legs(), Q.n, R.n))]
    for v, st in structs[1:]:
        ctx.check(st == structs[0][1], f'dot_{fact}:factor-structure-independent-of-configuration', (v, structs[0][0]))
    _compare(ctx, res, f'dot_{fact}')
    return {'a': describe(a), 'b': describe(b)}


def k_dot_svd(ctx, spec):
    return _dot_then(ctx, spec, 'svd')


def k_dot_qr(ctx, spec):
    return _dot_then(ctx, spec, 'qr')


def k_unroll(ctx, spec):
    import yastn
    rng = rng_of(spec)
    symn = spec['sym']
    cfg = cat.make_config(symn)
    # chain A(i,j) B(j,k) C(k,l) with multi-sector legs of dims up to 3
    def leg():
        if symn == 'dense':
            return {'t': [[]], 'D': [rng.choice([2, 3, 4])]}
        win = cat.window(symn)
        ts = sorted(rng.sample(win, min(len(win), rng.choice([2, 3]))))
        return {'t': [list(t) for t in ts], 'D': [rng.choice([1, 2, 3]) for _ in ts]}
    L = [leg() for _ in range(4)]
    s = [rng.choice([1, -1]) for _ in range(4)]
    zero = list(cfg.sym.zero()) if cfg.sym.NSYM else []
    T = []
    for n in range(3):
        ts = {'sym': symn, 'fermionic': False, 's': [s[n], -s[n + 1]], 'legs': [L[n], L[n + 1]], 'n': zero, 'blocks': None, 'dtype': spec['dtype'], 'isdiag': False}
        if not cat.allowed_blocks(symn, ts['s'], ts['legs'], ts['n']):
            ctx.skip('no blocks')
        T.append(cat.build(ctx, ts, 'abc'[n], config=cfg))
    A, B, C = T
    expected = yastn.ncon([A, B, C], [[-1, 1], [1, 2], [2, -2]])
    args = (A, ('i', 'j'), B, ('j', 'k'), C, ('k', 'l'), ('i', 'l'))
    path, _ = yastn.get_contraction_path(*args)
    paths = [path, [(1, 2), (0, 1)], [(0, 1), (0, 1)]]
    legs = {'i': A.get_legs(0), 'j': B.get_legs(0), 'k': C.get_legs(0), 'l': C.get_legs(1).conj()}
    which = {'contracted': ['j'], 'output': ['i'], 'both': ['j', 'l'], 'two-contracted': ['j', 'k'], 'two-outputs': ['i', 'l'], 'all': ['i', 'j', 'l']}[spec['which']]
    def slicing(lab):
        lg = legs[lab]
        sl = spec['slicing']
        if sl == 'sectors':
            return yastn.make_sliced_legs(lg)
        if sl.startswith('uniform'):
            return int(sl[-1])
        out = []
        for t, D in zip(lg.t, lg.D):
            if D >= 2:
                h = D // 2
                out.append(yastn.SlicedLeg(t=[t], D=[h], slices={t: slice(0, h)}))
                out.append(yastn.SlicedLeg(t=[t], D=[D - h], slices={t: slice(h, D)}))
            else:
                out.append(yastn.SlicedLeg(t=[t], D=[D]))
        return out
    unroll = {lab: slicing(lab) for lab in which}
    U = list(expected.get_legs(native=True))
    E = reassemble(expected, U)
    r0 = yastn.contract_with_unroll(*args, optimize=path)
    ctx.eq(reassemble(r0, U), E, 'contract_with_unroll(no unroll) == ncon')
    for n, p in enumerate(paths):
        r = yastn.contract_with_unroll(*args, unroll=dict(unroll), optimize=p)
        wellformed(ctx, r, f'unroll[{n}]', check_dense_zero=False)
        ctx.check(r.n == expected.n and tuple(r.get_signature()) == tuple(expected.get_signature()), 'unroll:charge+signature')
        got = r.get_legs(native=True)
        ctx.check(all(dense.leg_sub(x, y) for x, y in zip(got, U)), 'unroll:legs', [(x.t, x.D) for x in got])
        ctx.eq(reassemble(r, U), E, f'contract_with_unroll(unroll={which}:{spec["slicing"]}, path {n}) == ncon')
    r = yastn.contract_with_unroll_compute_constants(*args, unroll=dict(unroll), optimize=path) if hasattr(yastn, 'contract_with_unroll_compute_constants') else None
    if r is not None:
        ctx.eq(reassemble(r, U), E, 'contract_with_unroll_compute_constants == ncon')
    return {'legs': L, 'unroll': which, 'slicing': spec['slicing']}


def k_dot_lazy(ctx, spec):
    """lazily transposed operands with several outgoing legs, contracted spaces of dimension one (and outer products), under all policies and
    with the transposition kept lazy / consumed / copied"""
    import yastn
    rng = rng_of(spec)
    symn = spec['sym']
    cfg0 = cat.make_config(symn)
    kc = rng.choice([0, 1, 1, 2])
    ea, eb = rng.choice([2, 3]), rng.choice([1, 2])
    # contracted legs: several sectors, every sector of dimension one
    def one_leg():
        if symn == 'dense':
            return {'t': [[]], 'D': [1]}
        win = cat.window(symn)
        ts = sorted(rng.sample(win, min(len(win), rng.choice([1, 2, 3]))))
        return {'t': [list(t) for t in ts], 'D': [1 for _ in ts]}
    cl = [one_leg() for _ in range(kc)]
    sa = [rng.choice([1, -1]) for _ in range(kc)]
    ta = cat.rand_tensor_spec(rng, symn, kc + ea, fixed={i: (sa[i], cl[i]) for i in range(kc)}, dims=(2, 3) if rng.random() < 0.5 else (1, 2), nsect=(1, 2), max_size=120,
                              dtype=spec['dtype'], drop=spec.get('drop', 'none'))
    tb = cat.rand_tensor_spec(rng, symn, kc + eb, fixed={i: (-sa[i], cat.perturb_leg(rng, symn, cl[i], spec.get('overlap', 'equal'))) for i in range(kc)},
                              prefer={i: rng.choice(cl[i]['t']) for i in range(kc)}, dims=(1, 2), nsect=(1, 2), max_size=60, dtype=spec['dtype'])
    if ta is None or tb is None:
        ctx.skip('none')
    for i in range(kc):        # keep dims one on the partner too
        tb['legs'][i]['D'] = [1 for _ in tb['legs'][i]['D']]
    a = cat.build(ctx, ta, 'a', config=cfg0)
    b = cat.build(ctx, tb, 'b', config=cfg0)
    pa = list(range(a.ndim))[::-1] if rng.random() < 0.5 else rng.sample(range(a.ndim), a.ndim)
    pb = rng.sample(range(b.ndim), b.ndim)
    inva, invb = {p: i for i, p in enumerate(pa)}, {p: i for i, p in enumerate(pb)}
    axa, axb = tuple(inva[i] for i in range(kc)), tuple(invb[i] for i in range(kc))
    res = []
    for pol in POLICIES:
        for state in ('lazy', 'consumed', 'copied'):
            cfg = cat.make_config(symn, tensordot_policy=pol)
            A, B = a._replace(config=cfg).transpose(tuple(pa)), b._replace(config=cfg).transpose(tuple(pb))
            if state == 'consumed':
                A, B = A.consume_transpose(), B.consume_transpose()
            elif state == 'copied':
                A, B = A.copy(), B.copy()
            r = yastn.tensordot(A, B, axes=(axa, axb))
            wellformed(ctx, r, f'dot_lazy[{pol},{state}]', check_dense_zero=False)
            res.append(((pol, state), r))
    _compare(ctx, res, f'tensordot (contracted dims one, {kc} contracted legs)')
    return {'a': describe(a), 'b': describe(b), 'perm': (pa, pb)}
