#!/bin/sh
# usage: runall.sh [tier] [seed]   -- run every claimed check, print one line each (exit code, wall time, summary)
t=${1:-quick}; s=${2:-0}
for p in $(python3 -c "import json; print(' '.join(x['property_id'] for x in json.load(open('/verif/MANIFEST.json'))['checks']))"); do
  t0=$(date +%s)
  VERIF_SEED=$s ./check $p --tier $t > /tmp/runall_$p.out 2>&1; rc=$?
  t1=$(date +%s)
  echo "$p exit=$rc wall=$((t1-t0))s $(grep -E 'VIOLATION|INCONCLUSIVE|HARNESS' /tmp/runall_$p.out | head -2 | cut -c1-160 | tr '\n' ' ') $(grep -c KNOWN-FINDING /tmp/runall_$p.out) known"
done
