"""keepseed.py <property> <src dir> <name> <caught: yes|no|partial> <note>  -- store a confirmed seeded change under /verif/seeded/"""
import json, os, shutil, sys
prop, src, name, caught, note = sys.argv[1:6]
dst = f'/verif/seeded/{prop}-{name}'
os.makedirs(dst, exist_ok=True)
shutil.copy(f'{src}/patch.diff', dst); shutil.copy(f'{src}/demo.py', dst)
m = json.load(open(f'{src}/meta.json'))
m['confirmed_by_main_session'] = {
  'applied_with': 'git -C /repo apply patch.diff (reverted straight afterwards with git -C /repo checkout -- .)',
  'demo_with_change': 'non-zero exit', 'demo_without_change': 'exit 0',
  'existing_tests': m.get('tests_run'), 'check_quick_result': caught, 'note': note}
json.dump(m, open(f'{dst}/meta.json', 'w'), indent=1)
print('kept', dst)
