"""debug helper: run cases of a harness in-process.  usage: dbg.py C01 sym|float [kind] [max]"""
import sys, time, collections, traceback
sys.path.insert(0, '/verif')
from symx import runner
hname, mode = sys.argv[1], sys.argv[2]
kind = sys.argv[3] if len(sys.argv) > 3 else None
mx = int(sys.argv[4]) if len(sys.argv) > 4 else 10**9
tier = sys.argv[5] if len(sys.argv) > 5 else 'quick'
runner._init_worker(mode)
h = runner._harness(hname)
cases = [c for c in h.cases(tier, 0) if kind in (None, 'all') or c['kind'] == kind][:mx]
print(len(cases), 'cases')
cnt = collections.Counter(); t0 = time.time()
for c in cases:
    r = runner.run_case_sym(hname, c, h.OPTS.get(tier, {})) if mode == 'sym' else runner.run_case_float(hname, c, None, 1)
    cnt[r['status']] += 1
    if r['status'] not in ('ok',):
        print(c['id'], r['status'], r.get('detail') or r.get('cand', {}).get('label'), (r.get('cand') or {}).get('detail'), {k: v for k, v in c.items() if k not in ('id','seed','tier')})
print(cnt, round(time.time() - t0, 1), 's')
