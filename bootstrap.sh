#!/bin/sh
# Idempotent, offline: overlay venv on /venv (which has yastn editable -> /repo) + z3-solver + crosshair-tool.
set -e
cd "$(dirname "$0")"
V=/verif/.venv
if [ ! -x "$V/bin/python" ] || ! "$V/bin/python" -c "import z3, crosshair, numpy, yastn" 2>/dev/null; then
  rm -rf "$V"
  /venv/bin/python -m venv "$V"
  SP=$("$V/bin/python" -c "import sysconfig; print(sysconfig.get_paths()['purelib'])")
  printf "import site; site.addsitedir('/venv/lib/python3.12/site-packages')\n" > "$SP/_verif_overlay.pth"
  PIP_NO_INDEX=1 "$V/bin/python" -m pip install -q --no-index --find-links /opt/veriftools/wheels z3-solver crosshair-tool >/dev/null
fi
"$V/bin/python" -c "import z3, crosshair, numpy, yastn; print('bootstrap ok: z3', z3.get_version_string(), 'yastn from', yastn.__file__)"
