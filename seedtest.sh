#!/bin/sh
# usage: seedtest.sh <property> <dir with patch.diff + demo.py> [tier]  -- apply the seeded change to /repo, run demo + check, revert.
p=$1; d=$2; t=${3:-quick}
cd /repo && git diff --quiet || { echo "repo dirty"; exit 9; }
git apply "$d/patch.diff" || { echo "PATCH DOES NOT APPLY"; exit 9; }
/venv/bin/python "$d/demo.py" >/dev/null 2>&1; echo "demo with change: exit=$? (expect non-zero)"
cd /verif && ./check $p --tier $t > /tmp/seedtest.out 2>&1; rc=$?
grep -E "VIOLATION|KNOWN|HARNESS|INCONCL" /tmp/seedtest.out | head -4; grep "tier=" /tmp/seedtest.out | cut -c1-170
echo "check exit=$rc"
cd /repo && git checkout -- . && find /repo -name __pycache__ -type d -prune -exec rm -rf {} + 2>/dev/null
/venv/bin/python "$d/demo.py" >/dev/null 2>&1; echo "demo without change: exit=$? (expect 0)"
