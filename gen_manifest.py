"""regenerates MANIFEST.json from the table below (keeps it valid at all times)."""
import json, os
CLAIMED = {
 'C01': dict(engine='symx', design='4/C01', technique='symbolic execution of the real yastn+backend_np code on solver-variable tensor elements (z3 QF_NRA), structure catalogue as bound; counterexamples replayed on the float backend',
   text='Bounded symbolic model checking: for every structure in a pairwise-covering (thorough: 3-wise) catalogue of symmetries/ranks/signatures/sector sets/dims/charges/lazy states/policies, ALL stored tensor elements and scalars are z3 variables and the real operation is executed; z3 decides that no element of the re-assembled result can differ from the NumPy reference (unsat = holds for all values). Structure axis is enumerated (the bound), value axis is universally quantified.',
   note='Trusted: z3; NumPy object-array semantics of slicing/reshape/dot; harness dense re-assembly from a[block]+get_legs. Exact real/complex arithmetic (no round-off). Outside: torch backends, structures beyond the catalogue bounds.'),
 'C19': dict(engine='symx+z3-direct', design='4/C19', technique='z3 LIA queries on the real sym.fuse/add_charges executed over unbounded symbolic integer charges (object arrays of z3 Int terms); solver-driven exhaustive path exploration of Leg.__post_init__/conj over a box of symbolic integer arguments',
   text='Group axioms (reference law, canonical range, regrouping for every split, commutativity, zero identity, inverse, idempotence, add_charges==fuse, row independence) are decided as unsat LIA queries for UNBOUNDED integer charges and symbolic signatures, m<=4 (thorough 5) fused charges, for all 7 shipped symmetry classes. Leg acceptance/sorting/conj are decided on every path of the real constructor over a finite box of symbolic integer arguments (in and just outside the valid domain): solver-driven enumeration, exhaustive within the box.',
   note='Trusted: z3; NumPy object-array matmul/mod semantics. int64 modelled as mathematical integers. add_charges runs with an in-process np.array shim that keeps symbolic ints. Outside: Leg arguments beyond the box; user-defined symmetries.'),
 'C20': dict(engine='symx', design='4/C20', technique='symbolic execution of the real geometry classes on z3 Int site coordinates/shifts/labels (unbounded), lattice dims and boundary enumerated; LIA unsat queries per path; pattern labels fork on equality (one path per set partition)',
   text='For every SquareLattice dims<=5x5 x boundary (complete for the stated bound), Checkerboard, both Triangular variants: nn_site/None-iff-leaves-open-direction/mutual inverse, site2index oracle + invariance under exactly the lattice periods, coverage and uniqueness of sites()/bonds(), nn_bond_dirn, and f_ordered total-order axioms are decided by z3 for UNBOUNDED integer sites and shifts. RectangularUnitcell accept/reject is decided for fully symbolic labels (<=4 values) on shapes up to 2x3 (thorough 3x3, 2x4) - one path per label-equality pattern - plus concrete 4x4 families. Lattice container get/set/patch explored over a symbolic site window.',
   note='Trusted: z3 LIA. Open-boundary sites assumed on the lattice. Cylinder seam bonds are exempt from f-ordering (cannot be both lattice- and f-ordered). Outside: 4x4 patterns with symbolic labels; dims beyond the bounds.'),
 'C13': dict(engine='symx', design='4/C13', technique='forking symbolic execution of the real truncation_mask on a spectrum of solver variables (every comparison inside argsort/max/>tol*max is a z3-decided branch); per-path limit/maximality/completeness obligations as unsat queries; *_with_truncation through LAPACK contract stubs',
   text='All orderings, ties and zeros of a k<=4 (thorough 5) value spectrum over all sector compositions are explored as paths of the real code; tol/tol_block are symbolic in (0,1) (incl. per-sector dicts), D_total/D_block enumerated incl. dict and inf. On each path z3 proves: limits respected, kept > tol*max, no discarded value exceeds a kept one competing under the same limit, an eligible value is dropped only when a cap binds, non-binding limits drop only exact zeros. svd/eigh_with_truncation: same indices removed from U,S,V and a - kept == discarded element-wise (contract stubs).',
   note='Trusted: z3 (QF_NRA for tol*s products), LAPACK contracts for part (b). Branch feasibility uses the path condition plus linear assumptions only (over-approximation: sound). Outside: truncate_multiplets heuristics, mask_f, larger spectra.'),
 'C04': dict(engine='symx', design='4/C04', technique='symbolic execution of the real svd/qr/eigh pipelines with LAPACK leaf calls replaced by contract stubs (fresh outputs + defining equations); z3 QF_NRA unsat queries for reconstruction, isometry, ordering, sign; pinned rational witness as vacuity guard',
   text='For catalogue tensors (7 symmetries, rank 2-4, all bipartitions/orders via covering array, sU/sQ, nU, Uaxis/Vaxis/Qaxis/Raxis, zero/non-zero charge, real/complex, lazy/consumed, hard/meta-fused inputs) every input element and every LAPACK output admitted by the contract is a solver variable; z3 proves U S V == a, Q R == a, U S U^H == a, U^H U == I, V V^H == I, Q^H Q == I, S >= 0 and ordered per sector (all four `which` orders for eigh), R upper-triangular with diag >= 0 on every sign-fork path, charge on the selected factor, signature and position of the new leg.',
   note='Trusted: z3; LAPACK contract (svd/qr/eigh outputs satisfy their defining equations, deterministic). Vacuity excluded per case by an exact rational witness. Outside: eig (non-Hermitian), lowrank/iterative policies, fix_signs, blocks beyond 3x3 (thorough 4x4).'),
 'C03': dict(engine='symx', design='4/C03', technique='symbolic execution of the real fuse/unfuse/mask/block code on solver-variable tensor elements; z3 equality of un-fused results with the NumPy reference on un-fused operands; catalogue of fusion plans and sector-mismatch patterns as bound',
   text='unfuse(fuse(a)) == a (dense + legs incl. history) for random ordered partitions, depth <= 2 (thorough 3), hard/meta/mixed; norm^2 preserved as a polynomial identity; tensordot / + / - / vdot / trace over flat and nested fused legs equal the same operation over the original legs for operands whose matched legs have equal, subset, superset, overlapping or disjoint sector sets on EVERY fused sub-leg (missing sectors act as zeros); block() equals the direct-sum placement oracle; six families of incompatible fusion histories must raise YastnError and nothing else; a YastnError on a compatible pair is itself a violation.',
   note='Trusted: z3; harness dense re-assembly. Outside: depth > 3, > 4 legs per group.'),
 'C14': dict(engine='symx', design='4/C14', technique='differential symbolic execution: the same bounded program on the same solver variables under configurations differing only in tensordot_policy / default_fusion / force_fusion / inserted consume_transpose()/copy(); z3 equality of dense results; contract_with_unroll vs ncon for every unroll spec and path',
   text='Eight program templates (tensordot chain, ncon with two orders, fuse->dot->fuse->unfuse with mode taken from the config, transpose->add, fuse->sub, dot->trace, dot->svd, dot->qr through contract stubs) are run under >= 7 configuration variants each (all 3 policies, hard/meta default and forced fusion, 4 materialisation patterns); all results must have equal charge, consistent legs and identical dense values for all input values. contract_with_unroll: contracted/output/both/two-contracted labels x sector / uniform(1,2,3) / intra-sector slicings x 3 contraction paths (+ compute_constants variant) against ncon.',
   note='Trusted: z3; LAPACK contracts for dot->svd/qr. Legs are compared up to charge sectors that hold no block (a hard-fusion history may remember such sectors, meta fusion does not; the dense values on the union are decided equal). Outside: programs outside the templates.'),
 'C15': dict(engine='symx', design='4/C15', technique='symbolic execution with before/after snapshots of every argument (structure, identity and term-by-term content of the data array); z3 decides whether any element of an argument can differ after the call; in-place API applied to copies/sources with fresh symbols',
   text='~70 unary and ~22 binary public Tensor operations (incl. linalg through contract stubs, fusion with mismatched sectors, serialisation, swap_gate, fkron, block, ncon/einsum, all tensordot policies), 28 MPS/MPO operations (algebra, measurements, environments, norm/canonize on copies), Peps container copy/clone/shallow_copy/apply_gate_ arguments are executed once per covering-array row (symmetry x op x lazy state x dtype); every argument must be observationally unchanged for all input values; copy()/clone() results must be unaffected by set_block/item assignment/canonize_/orthogonalize_site_ on the source and vice versa.',
   note='Trusted: z3; LAPACK contracts. Outside: torch autograd aliasing; iterative algorithms (dmrg_/tdvp_/ctmrg_); get_Schmidt_values/get_entropy; sequences of operations (single calls only in quick).'),
}
NA = {
 'C09': 'DMRG: outcome of iterated floating-point Krylov eigen-solves and LAPACK sweeps; a contract stub for eigs would assume the conclusion, chained LAPACK contracts need non-linear ideal reasoning z3/cvc5 do not finish (DESIGN 5)',
 'C10': 'TDVP: rests on expmv/expm (adaptive floating-point Krylov exponential with data-dependent step control); not expressible as exact algebra a solver decides (DESIGN 5)',
 'C12': 'exact PEPS environments: every environment is a chain of truncated SVD/QR/eigh calls (boundary-MPS zipper, CTM projectors, BP fixed points, NTU metrics); goals need non-linear ideal reasoning over hundreds of reals (DESIGN 5)',
 'C18': 'Krylov solvers: the code under test is itself the iterative floating-point algorithm with tolerance-based control flow; tolerance statements are not exact-arithmetic facts (DESIGN 5)',
}
PENDING = 'check not built yet in this round (see DESIGN 4 for the planned solver encoding); listed here until its harness is committed'
ALL = ['C%02d' % i for i in range(1, 21)]
BASE = json.load(open('/root/.vp/BASELINE.json'))
m = {
 'version': 1,
 'setup_cmd': './bootstrap.sh',
 'hooks': {'guard': 'YASTN_VERIF', 'enable': 'no hooks are needed: checks import /repo as is (editable install) and patch the backend module object in their own process only',
           'baseline_off_cmd': BASE['cmd'].replace(' --junitxml=<file>', ''), 'source_commits': [], 'add_only': True},
 'engines': [
   {'name': 'symx', 'path': 'symx/', 'serves_properties': [p for p, v in CLAIMED.items() if v['engine'] == 'symx'],
    'kind_free_text': 'operator-overloading symbolic executor of the real yastn code on dtype=object arrays of z3 terms; re-execution DFS path exploration; LAPACK contract stubs; float-backend replay'},
   {'name': 'crosshair', 'path': 'harness/ch_*.py', 'serves_properties': [p for p, v in CLAIMED.items() if 'crosshair' in v['engine']],
    'kind_free_text': 'CrossHair 0.0.110 symbolic execution of pure-Python integer kernels (contracts in harness files calling the real functions)'},
   {'name': 'z3-direct', 'path': 'harness/', 'serves_properties': [p for p, v in CLAIMED.items() if 'z3-direct' in v['engine']],
    'kind_free_text': 'z3 Int terms pushed through branch-free NumPy kernels (sym.fuse) as object arrays; LIA unsat queries over unbounded charges'},
 ],
 'checks': [],
 'not_applicable': [],
 'notes': 'exit 0 = all obligations unsat within bounds; exit 1 = reproducing counterexample (VIOLATION line); exit 2 = inconclusive/harness error (never reported as success). known_findings.json lists genuine defects (fixed by fix: commits in /repo).',
}
for p in ALL:
    if p in CLAIMED:
        v = CLAIMED[p]
        m['checks'].append({'property_id': p, 'quick_cmd': f'./check {p} --tier quick', 'thorough_cmd': f'./check {p} --tier thorough',
                            'evidence_file': f'/verif/evidence/{p}.json', 'replay_cmd_template': f'./check {p} --replay {{path}}',
                            'engine': v['engine'],
                            'level_claimed': {'category': v.get('category', 'model_checking'), 'text': v['text'], 'design_ref': 'DESIGN.md section ' + v['design']},
                            'level_note': v['note'], 'technique': v['technique']})
    else:
        m['not_applicable'].append({'property_id': p, 'reason': NA.get(p, PENDING)})
json.dump(m, open('MANIFEST.json', 'w'), indent=1)
print('claimed', [c['property_id'] for c in m['checks']])
